#!/usr/bin/env python3
"""Regenerates the seeded-change table in DESIGN.md §10.6 and the 'checks' entry of every seeded/*/meta.json
from mutants/RESULTS-seeded.txt."""
import json, os, re
ROOT = os.path.dirname(os.path.dirname(os.path.abspath(__file__)))
SUMMARY = {
'c07a':'Buffer::fill takes the free slice once before its retry loop: later reads of one fill overwrite earlier ones (needs a first read shorter than the longest pattern)',
'c07b':'"reader already at EOF" flag set when the first fill stops at exactly max_pattern_len bytes (<= instead of <): stream silently truncated',
'c07c':'roll buffer starts at 8 KiB and only grows in roll(): with a pattern > 8 KiB it never rolls, reads into an empty slice, takes Ok(0) as EOF (production capacity only)',
'c07d':'stream loop re-enables the prefilter and keeps a tail of min_pattern_len-1 instead of max_pattern_len-1 bytes (rare-byte prefilter, patterns of different lengths, read boundary inside the longer one)',
'c07e':'two cooperating sites: roll(keep) keeps 0 bytes when a match ended on the last buffered byte, but buffer_pos is still set to max_pattern_len: the next bytes are skipped, later offsets shift (needs a read ending exactly on a match end)',
'c08a':'two cooperating sites: roll retains max-1 bytes AND pre-roll flush point moved by one: first byte of a straddling longest match written twice, byte after it lost',
'c08b':'table driver writes replacements with write() instead of write_all(): short writes lose replacement tails',
'c08c':'absolute position derived from a per-buffer base that advances by buffer_reported_pos at a roll: closure (and find) get shifted spans when a match ended inside the retained tail',
'c08d':'Buffer::fill returns Ok(false) on EOF even after having read data: streams shorter than the longest pattern are flushed unsearched',
'c08e':'"skip the roll" fast path clears the buffer when everything was reported but leaves buffer_reported_pos at min: up to max_pattern_len non-match bytes after a match that ends on a read boundary are dropped (matches stay correct)',
'c17a':'rare-byte prefilters memoise (haystack address, length, scan start, hit) in relaxed atomics shared by clones: stale hit after the buffer is overwritten',
'c17b':'rare-byte prefilters keep a shared last_scan_at hint validated only against the haystack byte: another search / iterator / thread skips a real match',
'c17c':'roll buffer Vec recycled through a thread_local; recycled block of length exactly min accepted without spare room: later stream search on that thread truncated',
'c17d':'noncontiguous NFA memoises failure walks in two separate relaxed AtomicU32 arrays (from,to): pairs tear only under truly parallel searches (no UB, every sequential history correct)',
'c17e':'packed Rabin-Karp "hot pattern" hint shared by clones pre-empts a higher-priority pattern in the same hash bucket after an earlier search matched the lower one',
'c17f':'parked thread-local roll buffer is cleared only on the EOF path: a dropped iterator / failed or panicking replace leaves stale bytes for the next stream search on that thread',
'c17g':'prefilter effectiveness statistics shared by all clones switch the prefilter off for good after >= 40 ineffective calls; earliest(true) searches on leftmost searchers with a packed prefilter then return a different match',
'c07f':'start-state skip table in the stream loop built with `for byte in 0..u8::MAX` (exclusive): patterns beginning with byte 0xFF are skipped while in the start state',
'c08f':'pre-roll flush holds back the tail only when the last fill left the buffer full: after a short read that is not the end, the start of a spanning match is written as non-match and as many bytes after it are lost',
'c17h':'process-wide static remembers the length of the last finished stream and shrinks the next roll buffer, lower-bounded by min instead of min+1: with a pattern >= 1 KiB a stream search right after a short one is truncated',
'c18g':'writer / closure errors of kind BrokenPipe end stream replacement quietly with Ok(())',
'c07g':'single-pass min/max slip in the NFA compiler: max_pattern_len comes out too small (0) whenever the first pattern is the longest, so the roll buffer retains too little and a match spanning a refill underflows (panic)',
'c08g':'Buffer::roll uses a non-overlapping copy clamped to the front length: when fewer than max_pattern_len new bytes arrived since the last roll the retained tail keeps stale bytes (offsets stay correct, bytes written / handed to the closure are wrong)',
'c17i':'packed::Searcher builds a first-bytes set lazily, one fetch_or per pattern, and treats any non-zero value as complete: a thread (or a clone) that looks while another thread is still filling it rejects haystacks that do match (no UB; sequential use always correct)',
'c18h':'the done flag is latched after any fill that did not return Ok(true): after a transient read error the next poll returns None although the reader never reported EOF',
'c07h':'"trickle reader" fast path: when fewer than min_pattern_len unsearched bytes are buffered they are fed to the automaton without the per-byte is_match test - a partial match carried across a refill and completed by a byte that is not the last fresh one is lost (all patterns >= 3 bytes, refills of 2..min-1 bytes)',
'c08h':'table variant batches replacements of back-to-back matches in a 4 KiB scratch buffer and writes replacements >= 4 KiB straight through without flushing the batch first: a huge replacement overtakes the small one before it',
'c17j':'AhoCorasick::try_find memoises its last miss in an Arc shared by clones, keyed by haystack address, length, span and first/last byte (not by anchored mode or contents): a later find on an overwritten buffer or after an anchored miss returns None',
'c18i':'the automaton state is reset to the start state when a fill fails: polling on after a transient read error that lands inside a partial match loses that match or invents one',
'c07i':'rolls are held off until the buffer holds more than 8*min bytes (strict >): with capacity exactly 8*min (longest pattern >= 8 KiB, shipped formula) it never rolls, reads into an empty slice and takes Ok(0) as EOF',
'c08i':'non-match chunks shorter than 1 KiB are coalesced in a pending buffer; chunks >= 1 KiB are written straight through without flushing it first: bytes come out reordered',
'c17k':'rare-byte prefilters remember scans that skipped >= 4096 bytes, keyed by haystack address only: a later search over different bytes at the same address skips real matches',
'c18j':'for patterns >= 256 bytes fill() tops the buffer up in a second loop that treats Ok(0) and Err alike as "stop": a transient read error inside it vanishes',
'c07j':'prefilter fast path in the stream loop that leaves a tail of min_pattern_len-1 instead of max_pattern_len-1 bytes (rare-byte prefilter, unequal pattern lengths, boundary inside the longer match)',
'c08j':'new trait method stream_lookbehind_len, overridden by the noncontiguous NFA with its (0-based, one too small) state depth: the pre-roll flush hands out the first byte of a match that straddles a refill (noncontiguous NFA only)',
'c17l':'noncontiguous NFA keeps a shared (index, link) cursor in an AtomicU64 for match_pattern: any other search between two steps of an overlapping search makes it report wrong pattern ids',
'c18k':'the table entry point runs its own loop `while let Some(Ok(chunk))`: a read error ends replacement quietly with Ok(())',
'c07m':'two cooperating edits: fill() returns after the first non-empty read, and roll() became total while its call site dropped the len>=min guard but kept buffer_pos=min: first reads shorter than the longest pattern skip unsearched bytes',
'c08m':'two cooperating edits spending the same byte of slack: roll retains max-1 bytes and the pre-roll flush goes one byte further',
'c17m':'two cooperating edits: shared prefilter-effectiveness counters (only PossibleStartOfMatch candidates count) plus the packed prefilter returning PossibleStartOfMatch(span.start) for spans shorter than its minimum length: ~40 tiny searches switch the packed prefilter off for all clones, earliest(true) answers change',
'c18m':'two cooperating edits: fill() defers an error that follows a partial fill to the next call, and the chunk iterator takes a short Ok(true) fill for EOF: the deferred error is never delivered',
'c07n':'the roll is skipped when the last read left spare capacity, but the spare-capacity value is computed once before fill()s loop: short reads below the longest pattern followed by a read that exactly fills the buffer leave it full and unrolled - the next read gets an empty slice, taken for EOF',
'c08n':'non-match chunks written with a single write(); the unwritten suffix is handed back by rewinding buffer_reported_pos and clearing the done flag: a short write on the final chunk makes the reader be polled again after it reported EOF',
'c17n':'single-rare-byte prefilter keeps a shared last_scan_at hint read only by the in-loop prefilter call: sequentially always overwritten first, but a search suspended mid-way trusts the position stored by another thread and skips matches (pure interleaving defect)',
'c18n':'roll bookkeeping deferred in a pending_roll field that the error path does not restore: two failed reads in a row on the same refill skip bytes / shift offsets / panic',
'c17p':'memmem prefilter remembers (pointer, span end, scan start) of its last fruitless scan of >= 64 bytes in three relaxed atomics shared by clones: stale after the buffer changes in place, torn between threads',
'c17q':'contiguous NFA caches its last failure-chain transition in an AtomicU64 keyed by (state, class) but not by the anchored flag: an anchored overlapping search after an unanchored one follows a failure transition',
'c17r':'replace_all_bytes builds its output in a thread-local scratch Vec that is shrunk (not cleared) when it grew beyond 64 KiB: the next replace_all on that thread is prefixed with the previous output',
'c17s':'AhoCorasick remembers in an AtomicBool that the start-kind consistency check once succeeded and skips it afterwards: a later search in the unsupported anchored mode returns Ok instead of Err',
'c07t':'capacity clamped to [64 KiB, 1 MiB]: with a pattern >= 1 MiB the buffer has no spare room after the first roll (shipped capacity only)',
'c08t':'capacity = max(min.next_power_of_two(), 64 KiB): a longest pattern of exactly 65536 / 131072 ... bytes leaves no spare room',
'c17t':'shared prefilter effectiveness tracker turns the prefilter permanently inert after 50 match-dense calls: earliest(true) on a leftmost searcher with the packed prefilter then answers differently',
'c18t':'ErrorKind::Interrupted from the reader is retried inside fill and never reported (first tolerated by the check; see section 10.2)',
'c07u':'start-state skip set in the stream loop probed with `for byte in 0..u8::MAX`: a pattern whose first byte is 0xFF is skipped while in the start state (same idea as c07f, written independently)',
'c08u':'non-match chunk before a match ends at the max (instead of min) start offset over all patterns of the match state: with suffix patterns the match head is written verbatim and as many bytes after it are dropped',
'c17u':'8-slot direct-mapped memo of fruitless find/is_match calls keyed by a fingerprint that hashes only the first and last 32 bytes of spans > 64 bytes: a different haystack of the same length and ends returns None',
'c18u':'the closure result is checked at the top of the next loop iteration only: a closure (or in-closure write) failure at the last match of a stream that ends with that match is dropped',
'c07v':'fill() returns Ok(false) on EOF even when earlier reads of the same call delivered bytes: streams shorter than the longest pattern are flushed unsearched (independent rediscovery of c08d)',
'c08v':'table variant batches replacements of adjacent matches in a 256-byte stack buffer and writes a replacement that does not fit straight through without flushing first: long runs of back-to-back matches come out reordered',
'c17v':'packed::Searcher copies sub-minimum_len haystacks into a shared scratch buffer whose tail is never re-zeroed: a shorter haystack after a longer one joins stale bytes to a pattern crossing its end',
'c18v':'table variant wraps the writer in an 8 KiB coalescing buffer that is re-sent in full by a trailing flush after write_all failed part-way: the head of the block reaches the writer twice',
'c07w':'roll buffer slides a start offset instead of copying while 4*min bytes are free and compacts with a window-relative offset used as absolute: after a slide the compaction keeps stale bytes (needs capacity >= 5*longest+1 and reads that leave room)',
'c08w':'non-match chunks offered with a single write(); if exactly one byte stays unwritten it is handed back to the chunk iterator - lost when that chunk was the final one',
'c17w':'AhoCorasick keeps a shared, lazily created roll buffer for stream replacement behind a Mutex, cleared after the search and recovered from poisoning with into_inner(): a panic unwinding through one stream replace leaves stale bytes for the next',
'c18w':'table variant wraps the writer in a BufWriter and never flushes: a failure of the final (drop-time) write is discarded and Ok(()) returned',
'c07x':'fill() uses read_vectored with a lookahead slice and forgets that bytes moved in from the lookahead count as read: only readers that override read_vectored (slices, files) can show it',
'c08x':'table variant writes gap + replacement with one write_vectored call and assumes the whole replacement is still owed after a short write: only writers that override write_vectored and stop inside the second slice show it',
'c17x':'finished stream searches park their roll buffer in a thread_local tagged with the automaton ADDRESS; a different searcher later living at that address inherits the old roll size',
'c18x':'Interrupted after a partial fill is swallowed (fill returns Ok(true))',
'c07y':'fill() commits its end only after the loop: a transient read error after a short first read drops bytes the reader already handed out; polling on shifts all later offsets (told the tester is fault-free for C07)',
'c08y':'capacity = max(min(8*min, 1 MiB), 64 KiB): with a pattern >= 1 MiB nothing is freed by a roll (told the tester uses small patterns)',
'c17y':'roll buffer Vec recycled per thread, accepted when its capacity() (not len()) is large enough: after a 64 KiB+ pattern search and an ordinary one, the next 64 KiB+ search gets a truncated buffer (told the tester uses ordinary pattern sizes)',
'c18y':'fill() resets end to its entry value when a later read of the same call fails: bytes already consumed from the reader are lost; polling on shifts offsets',
'c07z':'roll() returns early (no move, end not reset) when the dropped prefix is smaller than the kept suffix and min bytes are still free, but the caller already set buffer_pos=min: bytes are scanned twice, offsets shift',
'c08z':'fill() returns Ok(false) on EOF after data (third independent rediscovery of c08d)',
'c17z':'single-rare-byte prefilter memoises (address, length, start, hit) of its last scan (variant of c17a)',
'c18z':'a read error after a partial fill is dropped, Ok(true) returned (variant of c18a)',
'c07ra':'sliding-window roll buffer (start offset, memmove only when room runs out) whose compaction path assumes the window ends at the end of the allocation: with 0 < room < min the first `room` bytes of the next fill are never scanned',
'c08ra':'table variant batches output in an 8 KiB Vec; a piece that exactly fills the batch is written directly ahead of the still-pending batch: bytes reordered',
'c17ra':'roll buffer recycled per thread by a Drop impl that skips the reset when absolute_pos == 0: a stream search whose first fill got a short read and then an error leaves stale bytes for the next stream search on that thread',
'c18ra':'fill() uses read_vectored with an 8 KiB lookahead; a read error right after lookahead bytes were moved in is dropped (needs a vectored reader, a stream > 64 KiB and a transient error)',
'c07rb':'start-state self-loop skip table in the stream loop filled with `for byte in 0..u8::MAX`: byte 0xFF is always treated as staying in the start state, patterns beginning with 0xFF are never found in streams',
'c08rb':'roll-buffer capacity clamped to 1 MiB without keeping it above the longest pattern: with a pattern >= 1 MiB the first refill offers an empty slice, Ok(0) is taken for EOF (rediscovery of c07t)',
'c17rb':'noncontiguous NFA caches a match-list cursor in three relaxed atomics; only index-0 calls record the owning state but every call overwrites the position: interleaved overlapping searches report a wrong pattern',
'c18rb':'on a read error the replace driver first writes the held-back unsearched tail verbatim (rediscovery of c18d)',
'c07rc':'rewrite of StreamChunkIter::next / Buffer::roll that keeps everything since the automaton last sat in its start state: failure transitions can keep it out of the start state for longer than the buffer ("aab" on a run of a), then fill offers an empty slice and Ok(0) is taken for EOF',
'c08rc':'rewrite with a lazy roll (only when free space < longest pattern); roll() sets buffer_reported_pos = 0 instead of rebasing it: a replaced match inside the retained suffix is written again as plain text',
'c17rc':'the three rare-byte prefilters merged into one routine with an atomic note of the last scan (start, first rare byte position), validated only by "that byte is still a rare byte": a note from another haystack skips an earlier rare byte',
'c18rc':'rewrite of Buffer::fill as one read plus a top-up loop whose `_ => break` arm also catches Err: a one-shot read error after a short first read is dropped (rediscovery of c18a in a rewrite)',
'c07rd':'prefilter skip in the stream loop that holds back min_pattern_len-1 instead of max_pattern_len-1 bytes (third independent rediscovery of c07d)',
'c08rd':'roll sets buffer_reported_pos = 0 instead of rebasing it: a replaced match inside the retained tail is written again (same defect as c08rc, as a one-line edit)',
'c17rd':'prefilter effectiveness counters shared through an Arc; once inert the prefilter answers PossibleStartOfMatch(span.start), which flips earliest searches of leftmost searchers with a packed prefilter from the leftmost to the earliest-ending match',
'c18rd':'fill drops a read error when the same call already read bytes (fourth independent rediscovery of c18a)',
'c18a':'fill returns Ok(true) instead of the error when it had already buffered bytes in the same call: one-shot read errors during the initial fill vanish',
'c18b':'closure errors of kind Interrupted are retried by calling the closure again: error swallowed, partial output duplicated',
'c18c':'fill commits its new end only after the loop: an error on a later read of one fill discards bytes accepted earlier; polling on shifts all later offsets',
'c18d':'on a read error the replace driver first writes the held-back tail verbatim: bytes written are no longer a prefix when the tail was the start of a match',
'c18e':'read errors of kind UnexpectedEof are treated as end of stream',
'c18f':'fill reports EOF without reading when the buffer is non-empty but shorter than min: after a read error during the initial fill, polling again ends the stream although the reader never reported EOF',
}
rows = []
for line in sorted(open(os.path.join(ROOT, 'mutants/RESULTS-seeded.txt'))):
    parts = line.split()
    if len(parts) < 2: continue
    name = parts[1]
    if name.startswith('benign-'):
        continue
    m = re.search(r'\| (C\d\d) exit=(\d) class=(\S+) replay_exit=(\S+)', line)
    if not m: continue
    engine = {'C07': 'streamsim', 'C08': 'streamsim', 'C18': 'streamsim fault enumeration', 'C17': 'threadsim'}[m.group(1)]
    if name == 'c07y':
        engine = 'streamsim (after giving a tenth of the C07/C08 scenarios transient read errors that the caller polls through; first missed: C07 runs were fault-free by design)'
    if name == 'c17y':
        engine = 'threadsim (after adding 64 KiB+ patterns to single-client histories; first missed)'
    if name in ('c07x', 'c08x'):
        engine = 'streamsim (after giving the simulated reader/writer read_vectored / write_vectored overrides; invisible by construction before: std\'s default vectored methods only use the first slice)'
    if name == 'c07t':
        engine = 'streamsim production-capacity class (after adding 128 KiB - 2 MiB patterns; first missed)'
    if name == 'c18t':
        engine = 'streamsim fault enumeration (after removing the EINTR-retry tolerance; first missed by design)'
    if name == 'c17m':
        engine = 'threadsim (after adding packed-prefilter-friendly leftmost searchers and a probe suffix to every history; first missed in quick, found at 10x scale)'
    if name == 'c17k':
        engine = 'threadsim (after adding sparse multi-kilobyte haystack pairs through a reused buffer; first missed: no haystack had a 4 KiB gap without pattern bytes)'
    if name == 'c08h':
        engine = 'streamsim (after adding 1-70 KiB replacement tables; first missed: replacements were <= 50 bytes)'
    if name == 'c17i':
        engine = 'mirisim only (first-use race class: barrier-synchronised start, short first haystacks, wide alphabets); first missed'
    if name == 'c17h':
        engine = 'threadsim (after adding long-pattern searchers; first missed: patterns were <= 40 bytes)'
    if name == 'c17d':
        engine = 'mirisim (free-running threads under Miri, high-contention class); threadsim alone misses it'
    rows.append('| %s | %s | %s %s | %s |' % (name, SUMMARY.get(name, ''), m.group(1), engine, m.group(3)))
    p = os.path.join(ROOT, 'seeded', name, 'meta.json')
    if os.path.exists(p):
        meta = json.load(open(p))
        meta['summary'] = SUMMARY.get(name, '')
        meta['checks'] = {'check': m.group(1), 'quick_exit': int(m.group(2)), 'violation_class': m.group(3), 'replay_exit': m.group(4),
                          'verdict': parts[0], 'engine': engine,
                          'cmd': 'VERIF_REPO=<scratch worktree with patch.diff applied> ./check %s quick ; ./check %s --replay <reported file>' % (m.group(1), m.group(1))}
        json.dump(meta, open(p, 'w'), indent=1)
d = open(os.path.join(ROOT, 'DESIGN.md')).read()
head = '| change | what it does / what it needs | caught by | violation class |\n|---|---|---|---|\n'
i = d.index(head) + len(head)
j = d.index('\n\n', i)
d = d[:i] + '\n'.join(rows) + d[j:]
d = re.sub(r'\d+ of \d+ are detected', '%d of %d are detected' % (sum(1 for l in open(os.path.join(ROOT, 'mutants/RESULTS-seeded.txt')) if l.startswith('OK ') and ' benign-' not in l), len(rows)), d)
open(os.path.join(ROOT, 'DESIGN.md'), 'w').write(d)
print(len(rows), 'rows')
