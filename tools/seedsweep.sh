#!/bin/bash
# False-alarm sweep on the unchanged tree: every quick check under many VERIF_SEED values.
#   tools/seedsweep.sh <first-seed> <count> [--miri]
# Prints one line per (seed, property); any exit code other than 0 is a finding about the checks.
set -u
ROOT=$(cd "$(dirname "${BASH_SOURCE[0]}")/.." && pwd)
FIRST=${1:-1}; COUNT=${2:-10}; MIRI=${3:-}
export VERIF_OUT=${VERIF_OUT:-/tmp/verif-sweep-out} VERIF_EVIDENCE_DIR=${VERIF_EVIDENCE_DIR:-/tmp/verif-sweep-ev}
[ "$MIRI" = "--miri" ] || export VERIF_NO_MIRI=1
BAD=0
for S in $(seq "$FIRST" $((FIRST+COUNT-1))); do
  for P in C07 C08 C18 C17; do
    OUT=$(VERIF_SEED=$S "$ROOT/check" $P quick 2>&1); CODE=$?
    echo "seed=$S $P exit=$CODE $(echo "$OUT" | grep -E '^summary' | sed 's/summary property=[A-Z0-9]* //' | cut -c1-120)"
    if [ $CODE -ne 0 ]; then BAD=$((BAD+1)); echo "$OUT" | grep -E "VIOLATION|violation|HARNESS" | head -5; fi
  done
done
echo "sweep done: $BAD non-zero exits"
rm -rf /tmp/verif-sweep-out /tmp/verif-sweep-ev
