//! System under test: the real searchers, built from a scenario's options,
//! with a uniform dispatch over the four public surfaces.

use crate::scenario::{BuildOpts, Kind, MKind, Surface};
use aho_corasick::automaton::Automaton;
use aho_corasick::{
    dfa, nfa, AhoCorasick, AhoCorasickBuilder, AhoCorasickKind, Input, Match,
    MatchKind, StartKind,
};
use std::io;

pub type M = (u32, usize, usize);

pub fn m3(m: Match) -> M {
    (m.pattern().as_u32(), m.start(), m.end())
}

pub enum Sut {
    Top(AhoCorasick),
    Nnfa(nfa::noncontiguous::NFA),
    Cnfa(nfa::contiguous::NFA),
    Dfa(dfa::DFA),
}

fn mk(kind: MKind) -> MatchKind {
    match kind {
        MKind::Standard => MatchKind::Standard,
        MKind::LeftmostFirst => MatchKind::LeftmostFirst,
        MKind::LeftmostLongest => MatchKind::LeftmostLongest,
    }
}

std::thread_local! {
    /// How `stream_find` consumes the iterator (see `StreamScenario::drive`; harness state only).
    static DRIVE: std::cell::Cell<u8> = const { std::cell::Cell::new(0) };
}

pub fn set_drive(d: u8) {
    DRIVE.with(|v| v.set(d));
}

/// Marker payload: the consumer asked to stop while a `for_each` was in progress.
pub struct StopDrive;

std::thread_local! {
    /// Whether automaton-surface stream operations go through `<&A as Automaton>`
    /// (set from the scenario's options by `build`; harness state only).
    static VIA_REF: std::cell::Cell<bool> = const { std::cell::Cell::new(false) };
}

fn via_ref() -> bool {
    VIA_REF.with(|v| v.get())
}

pub fn build(patterns: &[Vec<u8>], o: &BuildOpts) -> Result<Sut, String> {
    VIA_REF.with(|v| v.set(o.via_ref));
    let start_kind =
        if o.start_both { StartKind::Both } else { StartKind::Unanchored };
    match o.surface {
        Surface::Top => {
            let mut b = AhoCorasickBuilder::new();
            b.match_kind(mk(o.match_kind))
                .start_kind(start_kind)
                .ascii_case_insensitive(o.case_insensitive)
                .byte_classes(o.byte_classes)
                .prefilter(o.prefilter);
            if let Some(d) = o.dense_depth {
                b.dense_depth(d);
            }
            b.kind(match o.kind {
                Kind::Auto => None,
                Kind::Noncontiguous => Some(AhoCorasickKind::NoncontiguousNFA),
                Kind::Contiguous => Some(AhoCorasickKind::ContiguousNFA),
                Kind::Dfa => Some(AhoCorasickKind::DFA),
            });
            b.build(patterns).map(Sut::Top).map_err(|e| e.to_string())
        }
        Surface::Noncontiguous => {
            let mut b = nfa::noncontiguous::NFA::builder();
            b.match_kind(mk(o.match_kind))
                .ascii_case_insensitive(o.case_insensitive)
                .prefilter(o.prefilter);
            if let Some(d) = o.dense_depth {
                b.dense_depth(d);
            }
            b.build(patterns).map(Sut::Nnfa).map_err(|e| e.to_string())
        }
        Surface::Contiguous => {
            let mut b = nfa::contiguous::NFA::builder();
            b.match_kind(mk(o.match_kind))
                .ascii_case_insensitive(o.case_insensitive)
                .byte_classes(o.byte_classes)
                .prefilter(o.prefilter);
            if let Some(d) = o.dense_depth {
                b.dense_depth(d);
            }
            b.build(patterns).map(Sut::Cnfa).map_err(|e| e.to_string())
        }
        Surface::Dfa => {
            let mut b = dfa::DFA::builder();
            b.match_kind(mk(o.match_kind))
                .start_kind(start_kind)
                .ascii_case_insensitive(o.case_insensitive)
                .byte_classes(o.byte_classes)
                .prefilter(o.prefilter);
            b.build(patterns).map(Sut::Dfa).map_err(|e| e.to_string())
        }
    }
}

macro_rules! on_aut {
    ($self:expr, $a:ident => $e:expr) => {
        match $self {
            Sut::Top(_) => unreachable!(),
            Sut::Nnfa($a) => $e,
            Sut::Cnfa($a) => $e,
            Sut::Dfa($a) => $e,
        }
    };
}

impl Sut {
    /// The in-memory non-overlapping iterator (the right-hand side of C07).
    pub fn find_all(&self, hay: &[u8]) -> Result<Vec<M>, String> {
        match self {
            Sut::Top(ac) => ac
                .try_find_iter(hay)
                .map(|it| it.map(m3).collect())
                .map_err(|e| e.to_string()),
            _ => on_aut!(self, a => a
                .try_find_iter(Input::new(hay))
                .map(|it| it.map(m3).collect())
                .map_err(|e| e.to_string())),
        }
    }

    /// In-memory replace-all (the right-hand side of C08).
    pub fn replace_all_bytes(
        &self,
        hay: &[u8],
        table: &[Vec<u8>],
    ) -> Result<Vec<u8>, String> {
        match self {
            Sut::Top(ac) => {
                ac.try_replace_all_bytes(hay, table).map_err(|e| e.to_string())
            }
            _ => on_aut!(self, a => a
                .try_replace_all_bytes(hay, table)
                .map_err(|e| e.to_string())),
        }
    }

    /// Run a stream search, handing every item to `f`; `f` returns false to
    /// stop polling. Returns Err(text) if the constructor rejected.
    pub fn stream_find<R: io::Read>(
        &self,
        rdr: R,
        infallible_ctor: bool,
        mut f: impl FnMut(Option<io::Result<Match>>) -> bool,
    ) -> Result<(), String> {
        macro_rules! drive {
            ($it:expr) => {{
                #[allow(unused_mut)]
                let mut it = $it;
                match DRIVE.with(|v| v.get()) {
                    1 => {
                        // (cannot stop early; a stop request - only budgets do that - unwinds)
                        // by value: `(&mut it).for_each` would go through `next()` and
                        // bypass a `fold` / `for_each` the library may have specialised
                        it.for_each(|item| {
                            if !f(Some(item)) {
                                std::panic::panic_any(StopDrive);
                            }
                        });
                        f(None);
                    }
                    2 => loop {
                        let item = it.nth(0);
                        if !f(item) {
                            break;
                        }
                    },
                    _ => loop {
                        let item = it.next();
                        if !f(item) {
                            break;
                        }
                    },
                }
                Ok(())
            }};
        }
        match self {
            Sut::Top(ac) => {
                if infallible_ctor {
                    drive!(ac.stream_find_iter(rdr))
                } else {
                    match ac.try_stream_find_iter(rdr) {
                        Err(e) => Err(e.to_string()),
                        Ok(it) => drive!(it),
                    }
                }
            }
            _ => on_aut!(self, a => {
                if via_ref() {
                    // (`r` is declared before the iterator so that it outlives it even
                    // if the library gives its stream iterator a Drop impl)
                    let r = &a;
                    let res = Automaton::try_stream_find_iter(&r, rdr);
                    let out = match res {
                        Err(e) => Err(e.to_string()),
                        Ok(it) => drive!(it),
                    };
                    out
                } else {
                    match a.try_stream_find_iter(rdr) {
                        Err(e) => Err(e.to_string()),
                        Ok(it) => drive!(it),
                    }
                }
            }),
        }
    }

    /// `count()` and `last()` of a stream find iterator (two readers: each consumes one).
    pub fn stream_count_last<R: io::Read>(
        &self,
        rdr_count: R,
        rdr_last: R,
    ) -> Result<(usize, Option<io::Result<Match>>), String> {
        match self {
            Sut::Top(ac) => {
                let n = ac.try_stream_find_iter(rdr_count).map_err(|e| e.to_string())?.count();
                let l = ac.try_stream_find_iter(rdr_last).map_err(|e| e.to_string())?.last();
                Ok((n, l))
            }
            _ => on_aut!(self, a => {
                let n = a.try_stream_find_iter(rdr_count).map_err(|e| e.to_string())?.count();
                let l = a.try_stream_find_iter(rdr_last).map_err(|e| e.to_string())?.last();
                Ok((n, l))
            }),
        }
    }

    pub fn stream_replace_all<R: io::Read, W: io::Write>(
        &self,
        rdr: R,
        wtr: W,
        table: &[Vec<u8>],
    ) -> io::Result<()> {
        match self {
            Sut::Top(ac) => ac.try_stream_replace_all(rdr, wtr, table),
            _ => on_aut!(self, a => {
                if via_ref() {
                    let r = &a;
                    Automaton::try_stream_replace_all(&r, rdr, wtr, table)
                } else {
                    a.try_stream_replace_all(rdr, wtr, table)
                }
            }),
        }
    }

    pub fn stream_replace_all_with<R, W, F>(
        &self,
        rdr: R,
        wtr: W,
        f: F,
    ) -> io::Result<()>
    where
        R: io::Read,
        W: io::Write,
        F: FnMut(&Match, &[u8], &mut W) -> io::Result<()>,
    {
        match self {
            Sut::Top(ac) => ac.try_stream_replace_all_with(rdr, wtr, f),
            _ => on_aut!(self, a => {
                if via_ref() {
                    let r = &a;
                    Automaton::try_stream_replace_all_with(&r, rdr, wtr, f)
                } else {
                    a.try_stream_replace_all_with(rdr, wtr, f)
                }
            }),
        }
    }

    pub fn patterns_len(&self) -> usize {
        match self {
            Sut::Top(ac) => ac.patterns_len(),
            _ => on_aut!(self, a => a.patterns_len()),
        }
    }
}
