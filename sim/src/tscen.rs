//! Explicit scenarios of threadsim (C17).

use crate::scenario::{hex, hexvec, BuildOpts, StreamOp, StreamScenario};
use serde::{Deserialize, Serialize};

#[derive(Serialize, Deserialize, Clone, Debug, PartialEq)]
pub struct SearcherSpec {
    #[serde(with = "hexvec")]
    pub patterns: Vec<Vec<u8>>,
    pub opts: BuildOpts,
    /// use `packed::Searcher` instead of an automaton
    pub packed: bool,
    /// packed::Config variation: 0 default, 1 only Rabin-Karp, 2 only Teddy,
    /// 3 fat Teddy, 4 128-bit Teddy, 5 no heuristic pattern limits
    #[serde(default)]
    pub packed_cfg: u8,
}

/// Where an operation's haystack lives.
#[derive(Serialize, Deserialize, Clone, Debug, PartialEq)]
pub enum Hay {
    /// One of the calling thread's reusable buffers, overwritten with `fill`
    /// just before the operation (same address, new contents).
    Buf {
        slot: usize,
        #[serde(with = "hex")]
        fill: Vec<u8>,
    },
    /// An immutable haystack owned by the scenario.
    Fixed(usize),
}

#[derive(Serialize, Deserialize, Clone, Debug, PartialEq)]
pub struct Search {
    pub s: usize,
    pub hay: Hay,
    pub span: Option<(usize, usize)>,
    pub anchored: bool,
    pub earliest: bool,
}

#[derive(Serialize, Deserialize, Clone, Copy, Debug, PartialEq, Eq)]
pub enum IterKind {
    Find,
    OverlappingSteps,
    OverlappingIter,
}

#[derive(Serialize, Deserialize, Clone, Debug, PartialEq)]
pub struct StreamPart {
    pub s: usize,
    pub kind: StreamOp,
    /// only stream/spare/reads/.../faults are used; patterns and opts come
    /// from the searcher spec
    pub sc: StreamScenario,
    /// drop the iterator after this many items
    pub cancel_after: Option<usize>,
    /// do a nested `find` on the same searcher from inside this read call
    pub nested_at_read: Option<(usize, usize)>, // (read call, fixed haystack)
}

#[derive(Serialize, Deserialize, Clone, Debug, PartialEq)]
pub enum IterSrc {
    Mem { kind: IterKind, q: Search },
    Stream(Box<StreamPart>),
}

#[derive(Serialize, Deserialize, Clone, Debug, PartialEq)]
pub enum Op {
    Find(Search),
    FindInfallible(Search),
    IsMatch(Search),
    /// iterate, dropping the iterator after `limit` items (cancel)
    Iter { kind: IterKind, q: Search, limit: Option<usize> },
    ReplaceAll {
        q: Search,
        #[serde(with = "hexvec")]
        table: Vec<Vec<u8>>,
    },
    ReplaceAllWith {
        q: Search,
        #[serde(with = "hexvec")]
        table: Vec<Vec<u8>>,
        stop_after: Option<usize>,
        /// nested `find` on the same searcher from inside the closure
        nested: Option<usize>,
        /// client crash: the closure panics at this call (unwinds through the library)
        #[serde(default)]
        panic_at: Option<usize>,
    },
    Stream(Box<StreamPart>),
    /// two iterators over the same searcher stepped alternately on one thread
    Interleave2 { a: IterSrc, b: IterSrc },
    /// clone the searcher, run the inner op on the clone, drop the clone
    WithClone(Box<Op>),
    /// build a private searcher from the same spec, clone it, DROP THE ORIGINAL,
    /// run the inner op on the surviving clone
    OrphanClone(Box<Op>),
    /// build an iterator, take `first` items, park it in `slot`
    StartIter { slot: usize, src: IterSrc, first: usize },
    /// take the iterator parked in `slot` (possibly by another thread) and drain it
    ResumeIter { slot: usize },
}

#[derive(Serialize, Deserialize, Clone, Copy, Debug, PartialEq, Eq)]
pub enum Policy {
    /// at every `density`-ish yield point pick a runnable thread uniformly
    Random,
    /// PCT-style: strict priorities, demote the running thread at change points
    Pct,
}

#[derive(Serialize, Deserialize, Clone, Debug, PartialEq)]
pub struct ThreadScenario {
    pub prop: String,
    pub origin: String,
    pub searchers: Vec<SearcherSpec>,
    #[serde(with = "hexvec")]
    pub fixed_hays: Vec<Vec<u8>>,
    pub threads: Vec<Vec<Op>>,
    pub slots: usize,
    pub policy: Policy,
    pub sched_seed: u64,
    pub density: u64,
    pub change_points: Vec<u64>,
    /// stall fault: thread `.0` is parked at its `.1`-th yield point until
    /// every other thread has finished
    pub stall: Option<(usize, u64)>,
    /// explicit scheduler choices (filled in after a run; consumed by replay)
    pub decisions: Option<Vec<u32>>,
}

/// One observable of an operation. An operation's result is a Vec<R>.
#[derive(Serialize, Deserialize, Clone, Debug, PartialEq)]
pub enum R {
    M(u32, usize, usize),
    None,
    Bool(bool),
    Bytes(#[serde(with = "hex")] Vec<u8>),
    Err(String),
    IoErr(String),
    Ok,
    Panic(String),
    Sep,
}
