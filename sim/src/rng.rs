//! The only PRNG of the simulator: xoshiro256** seeded through splitmix64.
//! Everything random in a run derives from `Rng::for_run(VERIF_SEED, stream, index)`.

#[derive(Clone, Debug)]
pub struct Rng {
    s: [u64; 4],
}

pub fn splitmix(x: &mut u64) -> u64 {
    *x = x.wrapping_add(0x9E37_79B9_7F4A_7C15);
    let mut z = *x;
    z = (z ^ (z >> 30)).wrapping_mul(0xBF58_476D_1CE4_E5B9);
    z = (z ^ (z >> 27)).wrapping_mul(0x94D0_49BB_1331_11EB);
    z ^ (z >> 31)
}

impl Rng {
    pub fn new(seed: u64) -> Rng {
        let mut x = seed;
        let s = [
            splitmix(&mut x),
            splitmix(&mut x),
            splitmix(&mut x),
            splitmix(&mut x),
        ];
        Rng { s }
    }

    /// Independent generator for (seed, stream id, run index).
    pub fn for_run(seed: u64, stream: u64, index: u64) -> Rng {
        let mut x = seed ^ stream.wrapping_mul(0xA076_1D64_78BD_642F);
        let a = splitmix(&mut x);
        let mut y = a ^ index.wrapping_mul(0xE703_7ED1_A0B4_28DB);
        let b = splitmix(&mut y);
        Rng::new(b)
    }

    pub fn next_u64(&mut self) -> u64 {
        let r = self.s[1].wrapping_mul(5).rotate_left(7).wrapping_mul(9);
        let t = self.s[1] << 17;
        self.s[2] ^= self.s[0];
        self.s[3] ^= self.s[1];
        self.s[1] ^= self.s[2];
        self.s[0] ^= self.s[3];
        self.s[2] ^= t;
        self.s[3] = self.s[3].rotate_left(45);
        r
    }

    /// Uniform in [0, n). n must be > 0.
    pub fn below(&mut self, n: usize) -> usize {
        debug_assert!(n > 0);
        ((self.next_u64() >> 11) % (n as u64)) as usize
    }

    /// Uniform in [lo, hi] inclusive.
    pub fn range(&mut self, lo: usize, hi: usize) -> usize {
        if hi <= lo {
            return lo;
        }
        lo + self.below(hi - lo + 1)
    }

    /// True with probability num/den.
    pub fn chance(&mut self, num: usize, den: usize) -> bool {
        self.below(den) < num
    }

    pub fn pick<'a, T>(&mut self, xs: &'a [T]) -> &'a T {
        &xs[self.below(xs.len())]
    }

    /// Pick an index according to integer weights.
    pub fn weighted(&mut self, weights: &[usize]) -> usize {
        let total: usize = weights.iter().sum();
        let mut x = self.below(total.max(1));
        for (i, &w) in weights.iter().enumerate() {
            if x < w {
                return i;
            }
            x -= w;
        }
        weights.len() - 1
    }

    /// Geometric-ish small number: 1 with p=1/2, 2 with 1/4, ... capped.
    pub fn geometric(&mut self, cap: usize) -> usize {
        let mut n = 1;
        while n < cap && self.chance(1, 2) {
            n += 1;
        }
        n
    }
}

/// 64-bit FNV-1a style running hash used for event-log and signature hashes
/// (no std RandomState anywhere in the simulator).
#[derive(Clone, Copy, Debug)]
pub struct Hasher64(pub u64);

impl Default for Hasher64 {
    fn default() -> Self {
        Hasher64(0xcbf2_9ce4_8422_2325)
    }
}

impl Hasher64 {
    pub fn new() -> Self {
        Self::default()
    }
    #[inline]
    pub fn u64(&mut self, x: u64) {
        let mut h = self.0 ^ x;
        h = h.wrapping_mul(0x0000_0100_0000_01B3);
        h ^= h >> 29;
        h = h.wrapping_mul(0xBF58_476D_1CE4_E5B9);
        h ^= h >> 32;
        self.0 = h;
    }
    pub fn bytes(&mut self, b: &[u8]) {
        self.u64(b.len() as u64);
        for chunk in b.chunks(8) {
            let mut w = [0u8; 8];
            w[..chunk.len()].copy_from_slice(chunk);
            self.u64(u64::from_le_bytes(w));
        }
    }
    pub fn finish(&self) -> u64 {
        self.0
    }
}
