//! gen(seed, index) -> StreamScenario. The only consumer of the PRNG for
//! stream scenarios. Swarm style: every run draws its own configuration.

use crate::rng::Rng;
use crate::scenario::*;

pub struct GenInfo {
    /// offsets at which a whole pattern was planted: (offset, len)
    pub planted: Vec<(usize, usize)>,
    pub class: &'static str,
}

fn palette(rng: &mut Rng, case: bool) -> Vec<u8> {
    let k = *rng.pick(&[1usize, 2, 2, 2, 3, 3, 3, 4, 4, 26, 26, 256]);
    if k == 256 {
        return (0..=255u8).collect();
    }
    if k == 26 {
        let mut v: Vec<u8> = (b'a'..=b'z').collect();
        if case {
            v.extend(b'A'..=b'Z');
        }
        return v;
    }
    let pool: &[u8] = if case {
        b"aAbBcCzZ"
    } else {
        &[b'a', b'b', b'c', b'd', 0x00, 0xFF, b'z', b'A', 0x80, b' ']
    };
    let mut v = Vec::new();
    if case {
        // take letters in pairs so both cases occur
        let start = rng.below(3) * 2;
        for i in 0..k {
            v.push(pool[(start + i) % pool.len()]);
        }
    } else {
        let start = rng.below(pool.len());
        for i in 0..k {
            v.push(pool[(start + i) % pool.len()]);
        }
    }
    v
}

fn rand_bytes(rng: &mut Rng, pal: &[u8], n: usize) -> Vec<u8> {
    (0..n).map(|_| *rng.pick(pal)).collect()
}

pub fn gen_patterns(rng: &mut Rng, pal: &[u8], huge_ok: bool) -> Vec<Vec<u8>> {
    gen_patterns_ext(rng, pal, huge_ok, huge_ok)
}

/// `many_ok`: 13-300 patterns may be drawn; `long_ok`: lengths around 100 / 256 may be drawn.
pub fn gen_patterns_ext(rng: &mut Rng, pal: &[u8], many_ok: bool, long_ok: bool) -> Vec<Vec<u8>> {
    // mostly short patterns; occasionally lengths around 100 and around the u8 boundary
    let maxl = if long_ok && rng.chance(1, 40) {
        *rng.pick(&[100usize, 255, 256, 257, 300])
    } else {
        *rng.pick(&[1usize, 2, 2, 3, 3, 4, 4, 6, 8, 12, 20, 40])
    };
    let n = match rng.weighted(&[300, 500, 200, if many_ok { 15 } else { 0 }, if many_ok { 10 } else { 0 }]) {
        0 => 1,
        1 => rng.range(2, 4),
        2 => rng.range(5, 12),
        3 => rng.range(13, 99),
        _ => rng.range(100, 300),
    };
    let fam = rng.weighted(&[40, 15, 15, 10, 8, 12]);
    let mut pats: Vec<Vec<u8>> = Vec::new();
    match fam {
        0 => {
            for _ in 0..n {
                let l = rng.range(1, maxl);
                pats.push(rand_bytes(rng, pal, l));
            }
        }
        1 => {
            // prefix chain
            let full = rand_bytes(rng, pal, maxl.max(n.min(40)));
            for i in 0..n {
                let l = (i % full.len()) + 1;
                pats.push(full[..l].to_vec());
            }
        }
        2 => {
            // suffix chain
            let full = rand_bytes(rng, pal, maxl.max(n.min(40)));
            for i in 0..n {
                let l = (i % full.len()) + 1;
                pats.push(full[full.len() - l..].to_vec());
            }
        }
        3 => {
            // a^k b
            let a = *rng.pick(pal);
            let b = *rng.pick(pal);
            for i in 0..n {
                let mut p = vec![a; (i % maxl.max(1)) + 1];
                p.push(b);
                pats.push(p);
            }
        }
        4 => {
            // duplicates
            let base: Vec<Vec<u8>> = (0..n.div_ceil(2).max(1))
                .map(|_| {
                    let l = rng.range(1, maxl);
                    rand_bytes(rng, pal, l)
                })
                .collect();
            for i in 0..n {
                pats.push(base[i % base.len()].clone());
            }
        }
        _ => {
            // one long + several short
            pats.push(rand_bytes(rng, pal, maxl));
            for _ in 1..n {
                let l = rng.range(1, maxl.min(3));
                pats.push(rand_bytes(rng, pal, l));
            }
        }
    }
    if rng.chance(1, 3) {
        // shuffle pattern order (ids matter for the table)
        for i in (1..pats.len()).rev() {
            let j = rng.below(i + 1);
            pats.swap(i, j);
        }
    }
    pats
}

fn flip_case(rng: &mut Rng, p: &[u8]) -> Vec<u8> {
    p.iter()
        .map(|&b| {
            if b.is_ascii_alphabetic() && rng.chance(1, 2) {
                b ^ 0x20
            } else {
                b
            }
        })
        .collect()
}

pub fn gen_stream(
    rng: &mut Rng,
    pal: &[u8],
    pats: &[Vec<u8>],
    target: usize,
    case: bool,
    planted: &mut Vec<(usize, usize)>,
) -> Vec<u8> {
    let mut s: Vec<u8> = Vec::with_capacity(target + 64);
    let density = rng.weighted(&[2, 5, 3]); // sparse / medium / dense in patterns
    while s.len() < target {
        let w = match density {
            0 => [70, 10, 10, 5, 5],
            1 => [35, 30, 15, 10, 10],
            _ => [10, 50, 15, 10, 15],
        };
        match rng.weighted(&w) {
            0 => {
                let n = rng.geometric(8);
                s.extend(rand_bytes(rng, pal, n));
            }
            1 => {
                let p = rng.pick(pats);
                let p = if case { flip_case(rng, p) } else { p.clone() };
                planted.push((s.len(), p.len()));
                s.extend(p);
            }
            2 => {
                // near miss: proper prefix
                let p = rng.pick(pats);
                if p.len() > 1 {
                    let k = rng.range(1, p.len() - 1);
                    s.extend(&p[..k]);
                } else {
                    s.push(*rng.pick(pal));
                }
            }
            3 => {
                // near miss: last byte altered
                let p = rng.pick(pats);
                let mut q = p.clone();
                let l = q.len();
                q[l - 1] = *rng.pick(pal);
                s.extend(q);
            }
            _ => {
                // overlapping concatenation p + p[k..]
                let p = rng.pick(pats);
                planted.push((s.len(), p.len()));
                s.extend(p);
                let k = rng.below(p.len());
                s.extend(&p[k..]);
            }
        }
    }
    if rng.chance(3, 4) {
        s.truncate(target);
        planted.retain(|&(o, l)| o + l <= target);
    }
    s
}

pub fn gen_opts(rng: &mut Rng, case: bool) -> BuildOpts {
    let surface = match rng.weighted(&[5, 1, 1, 1]) {
        0 => Surface::Top,
        1 => Surface::Noncontiguous,
        2 => Surface::Contiguous,
        _ => Surface::Dfa,
    };
    let kind = *rng.pick(&[Kind::Auto, Kind::Noncontiguous, Kind::Contiguous, Kind::Dfa]);
    BuildOpts {
        surface,
        kind,
        match_kind: MKind::Standard,
        start_both: rng.chance(1, 4),
        case_insensitive: case,
        dense_depth: *rng.pick(&[None, None, Some(0), Some(1), Some(2), Some(3)]),
        byte_classes: rng.chance(3, 4),
        prefilter: rng.chance(3, 5),
        via_ref: surface != Surface::Top && rng.chance(1, 4),
    }
}

fn gen_reads(
    rng: &mut Rng,
    stream_len: usize,
    maxlen: usize,
    planted: &[(usize, usize)],
) -> (Vec<ReadStep>, ReadStep, &'static str) {
    let mode = rng.weighted(&[12, 12, 10, 8, 8, 8, 14, 6, 6, 16]);
    let n = stream_len + 4;
    let mut reads = Vec::new();
    let (default, name): (ReadStep, &'static str) = match mode {
        0 => (ReadStep::Bytes(1), "all-1"),
        1 => {
            for _ in 0..n {
                reads.push(ReadStep::Bytes(rng.range(1, 3)));
            }
            (ReadStep::Bytes(2), "1..3")
        }
        2 => {
            for _ in 0..n {
                reads.push(ReadStep::Bytes(rng.geometric(12)));
            }
            (ReadStep::Bytes(1), "geometric")
        }
        3 => (ReadStep::Fill, "fill"),
        4 => {
            for i in 0..n {
                reads.push(if i % 2 == 0 { ReadStep::Bytes(1) } else { ReadStep::Fill });
            }
            (ReadStep::Fill, "alt-1-fill")
        }
        5 => (ReadStep::Bytes(maxlen.max(1)), "exactly-min"),
        6 => {
            // aimed: cut inside planted occurrences
            let mut cuts: Vec<usize> = Vec::new();
            for &(o, l) in planted {
                if l >= 2 {
                    match rng.below(4) {
                        0 => cuts.push(o + 1),
                        1 => cuts.push(o + l - 1),
                        2 => cuts.push(o + rng.range(1, l - 1)),
                        _ => {
                            for c in 1..l {
                                cuts.push(o + c);
                            }
                        }
                    }
                } else if rng.chance(1, 2) {
                    cuts.push(o);
                } else {
                    cuts.push(o + l);
                }
            }
            cuts.sort();
            cuts.dedup();
            for c in cuts {
                reads.push(ReadStep::Until(c));
            }
            (ReadStep::Fill, "aimed")
        }
        7 => (ReadStep::AllButOne, "all-but-one"),
        8 => (ReadStep::Half, "half"),
        _ => {
            for _ in 0..n {
                let s = match rng.below(7) {
                    0 => ReadStep::Bytes(1),
                    1 => ReadStep::Bytes(rng.range(1, maxlen.max(1) + 2)),
                    2 => ReadStep::Fill,
                    3 => ReadStep::Half,
                    4 => ReadStep::AllButOne,
                    5 => ReadStep::Bytes(maxlen.max(1)),
                    _ => ReadStep::Bytes(rng.geometric(20)),
                };
                reads.push(s);
            }
            (ReadStep::Bytes(1), "mixed")
        }
    };
    (reads, default, name)
}

fn gen_table(rng: &mut Rng, pal: &[u8], pats: &[Vec<u8>]) -> Vec<Vec<u8>> {
    if rng.chance(1, 30) {
        // mixed sizes: some replacements far larger than any internal buffer or
        // batching threshold (1 KiB .. 70 KiB), the others tiny and non-empty
        return pats
            .iter()
            .enumerate()
            .map(|(i, _)| {
                if rng.chance(3, 10) {
                    let n = *rng.pick(&[1000usize, 4095, 4096, 4097, 8192, 16384, 65536, 70000]);
                    let mut v = rand_bytes(rng, pal, n);
                    v[0] = b'[';
                    v[n - 1] = b']';
                    v
                } else {
                    vec![b'0' + (i % 10) as u8; rng.range(1, 3)]
                }
            })
            .collect();
    }
    let style = rng.below(6);
    pats.iter()
        .enumerate()
        .map(|(i, p)| match style {
            0 => Vec::new(),
            1 => pats[(i + 1) % pats.len()].clone(), // contains a pattern: must not be rescanned
            2 => {
                let n = rng.range(20, 50);
                rand_bytes(rng, pal, n)
            }
            3 => p.clone(), // identity table
            4 => {
                let mut v = p.clone();
                v.extend(p);
                v
            }
            _ => {
                let n = rng.range(0, 6);
                let mut v = rand_bytes(rng, pal, n);
                if rng.chance(1, 3) {
                    v.push(b'0' + (i % 10) as u8);
                }
                v
            }
        })
        .collect()
}

fn gen_writes(rng: &mut Rng, n: usize) -> (Vec<WriteStep>, WriteStep) {
    let mode = rng.weighted(&[30, 15, 15, 10, 30, 8]);
    let mut w = Vec::new();
    let default = match mode {
        0 => WriteStep::All,
        5 => WriteStep::AllButOne,
        1 => WriteStep::Accept(1),
        2 => {
            for _ in 0..n {
                w.push(WriteStep::Accept(rng.range(1, 3)));
            }
            WriteStep::Accept(2)
        }
        3 => WriteStep::Half,
        _ => {
            for _ in 0..n {
                w.push(match rng.below(7) {
                    6 => WriteStep::AllButOne,
                    0 => WriteStep::All,
                    1 => WriteStep::Accept(1),
                    2 => WriteStep::Accept(rng.range(1, 9)),
                    3 => WriteStep::Half,
                    4 => WriteStep::Interrupted,
                    _ => WriteStep::All,
                });
            }
            WriteStep::All
        }
    };
    (w, default)
}

pub fn spare_choices(rng: &mut Rng, maxlen: usize) -> Option<usize> {
    match rng.weighted(&[30, 25, 6, 6, 6, 6, 8, 8, 5]) {
        0 => Some(1),
        1 => Some(rng.range(2, 4)),
        2 => Some(maxlen.saturating_sub(1).max(1)),
        3 => Some(maxlen),
        4 => Some(maxlen + 1),
        5 => Some(8 * maxlen),
        6 => None,
        // anything in between (capacity = k * longest + r for arbitrary k, r)
        7 => Some(rng.range(1, 8 * maxlen + 8)),
        _ => Some(rng.range(1, 3) * maxlen + rng.range(0, 2)),
    }
}

/// Small-class scenario (the bulk of every batch).
pub fn gen_small(prop: &str, seed: u64, idx: u64) -> (StreamScenario, GenInfo) {
    let stream_id = match prop {
        "C07" => 7,
        "C08" => 8,
        "C18" => 18,
        _ => 99,
    };
    let mut rng = Rng::for_run(seed, stream_id, idx);
    let r = &mut rng;
    let case = r.chance(1, 5);
    let pal = palette(r, case);
    // C18 re-executes every fault position: no pattern sets of 13-300 there, but
    // long patterns (around 100 / 256 bytes) are allowed
    // one scenario in 30: valid UTF-8 text over a few multi-byte characters, patterns that are
    // arbitrary byte fragments of such text (they may begin or end inside a code point)
    let utf8: Option<Vec<&'static str>> = if !case && r.chance(1, 30) {
        const CH: [&str; 7] = ["\u{e9}", "\u{fc}", "a", "\u{6f22}", "\u{1f600}", "\u{df}", "b"];
        let k = r.range(2, 4);
        let start = r.below(CH.len());
        Some((0..k).map(|i| CH[(start + i) % CH.len()]).collect())
    } else {
        None
    };
    let pats = match &utf8 {
        Some(chars) => {
            let n = r.range(1, 5);
            (0..n)
                .map(|_| {
                    let nc = r.range(1, 4);
                    let t: Vec<u8> = (0..nc).flat_map(|_| r.pick(chars).as_bytes().to_vec()).collect();
                    let a = r.below(t.len());
                    let b = r.range(a + 1, t.len());
                    t[a..b].to_vec()
                })
                .collect()
        }
        None => gen_patterns_ext(r, &pal, prop != "C18", true),
    };
    let maxlen = pats.iter().map(|p| p.len()).max().unwrap();
    let spare = spare_choices(r, maxlen);
    let cap = maxlen + spare.unwrap_or(3).max(1);
    let limit = if prop == "C18" {
        // short streams so that every fault position can be enumerated; with a long
        // pattern the stream must still be able to roll a few times
        if maxlen >= 100 { 4 * maxlen + 40 } else { 160 }
    } else {
        1200
    };
    let target = match r.weighted(&[3, 4, 3, 4, 4, 4, 30, 20]) {
        0 => 0,
        1 => r.below(maxlen.max(1)),
        2 => maxlen,
        3 => cap,
        4 => cap.saturating_sub(1),
        5 => cap + 1,
        6 => r.range(cap + 1, 3 * cap + 2),
        _ => r.range(2 * cap, 6 * cap + 4),
    }
    .min(limit);
    let mut planted = Vec::new();
    let stream = match &utf8 {
        Some(chars) => {
            let mut s = Vec::new();
            while s.len() < target {
                s.extend_from_slice(r.pick(chars).as_bytes());
            }
            s
        }
        None => gen_stream(r, &pal, &pats, target, case, &mut planted),
    };
    let opts = gen_opts(r, case);
    let (mut reads, default_read, _mode) = gen_reads(r, stream.len(), maxlen, &planted);
    if r.chance(2, 25) && !stream.is_empty() {
        // soft EOFs: the reader says Ok(0) although data remains
        for _ in 0..r.range(1, 2) {
            if reads.is_empty() {
                let n = r.range(1, 6);
                for _ in 0..n {
                    reads.push(default_read);
                }
            }
            let at = r.below(reads.len() + 1);
            reads.insert(at, ReadStep::SoftEof);
        }
    }
    let op = match prop {
        "C07" => StreamOp::Find,
        "C08" => {
            if r.chance(1, 2) {
                StreamOp::Replace
            } else {
                StreamOp::ReplaceWith
            }
        }
        _ => match r.below(3) {
            0 => StreamOp::Find,
            1 => StreamOp::Replace,
            _ => StreamOp::ReplaceWith,
        },
    };
    let table = gen_table(r, &pal, &pats);
    let mut stream = stream;
    let mut table = table;
    let huge_table = table.iter().any(|t| t.len() >= 1000);
    if huge_table {
        // output size is (matches x replacement length): bound the run's cost
        let cap = if prop == "C18" { 60 } else { 160 };
        if stream.len() > cap {
            stream.truncate(cap);
            reads.truncate(cap + 10);
        }
        if prop == "C18" {
            // every fault position is re-executed: keep the large entries just above 4 KiB
            for t in table.iter_mut() {
                if t.len() > 4200 {
                    t.truncate(4200);
                }
            }
        }
    }
    let closure = if r.chance(3, 20) {
        vec![ClosureStep::Echo]
    } else {
        let n = r.range(1, 4);
        (0..n)
            .map(|_| {
                *r.pick(&[
                    ClosureStep::Table,
                    ClosureStep::Table,
                    ClosureStep::TableBytewise,
                    ClosureStep::Nothing,
                    ClosureStep::Echo,
                ])
            })
            .collect()
    };
    let (mut writes, mut default_write) = gen_writes(r, stream.len() + 8);
    if huge_table {
        // no byte-at-a-time acceptance of kilobyte replacements
        writes.retain(|w| !matches!(w, WriteStep::Accept(n) if *n < 64));
        if matches!(default_write, WriteStep::Accept(n) if n < 64) {
            default_write = *r.pick(&[WriteStep::All, WriteStep::Half, WriteStep::Accept(1000)]);
        }
    }
    // C07 / C08: one scenario in ten also carries one or two transient read errors
    // (the caller polls on; the reader hands out the same bytes): the matches / output
    // must still be those of the fault-free run. (C18 enumerates faults itself.)
    let mut faults = Vec::new();
    if prop != "C18" && r.chance(1, 10) {
        for _ in 0..r.range(1, 2) {
            faults.push(Fault::Read {
                call: r.below(12),
                kind: *r.pick(&[ErrKind::Interrupted, ErrKind::WouldBlock, ErrKind::TimedOut, ErrKind::OsEagain]),
                scribble: r.chance(1, 2),
            });
        }
    }
    let infallible_ctor = opts.surface == Surface::Top && op == StreamOp::Find && r.chance(3, 10);
    let sc = StreamScenario {
        prop: prop.to_string(),
        origin: format!("small seed={} idx={}", seed, idx),
        patterns: pats,
        opts,
        stream,
        spare,
        reads,
        default_read,
        scribble: r.chance(1, 2),
        vectored: r.chance(1, 3),
        op,
        table,
        closure,
        writes,
        default_write,
        faults,
        infallible_ctor,
        drive: 0,
    };
    let mut sc = sc;
    if sc.op == StreamOp::Find && r.chance(1, 8) {
        sc.drive = 1 + r.below(3) as u8;
    }
    (sc, GenInfo { planted, class: "small" })
}

/// Production-configuration scenario: capacity hook unset, patterns and
/// streams large enough for real rolls at the real capacity, on both
/// branches of max(8*min, 64 KiB).
pub fn gen_big(prop: &str, seed: u64, idx: u64) -> (StreamScenario, GenInfo) {
    let mut rng = Rng::for_run(seed, 1000 + prop.as_bytes()[2] as u64, idx);
    let r = &mut rng;
    let pal: Vec<u8> = match r.below(3) {
        0 => vec![b'a', b'b'],
        1 => vec![b'a', b'b', b'c', b'd'],
        _ => (b'a'..=b'z').collect(),
    };
    // longest pattern: around the interesting capacities
    // rarely a pattern beyond 128 KiB / 1 MiB / 2 MiB (capacity clamps, large allocations)
    let giant = r.chance(1, 50);
    let long = if giant {
        *r.pick(&[131_072usize, 200_000, 1_048_575, 1_048_576, 1_048_577, 1_500_000, 2_097_152])
    } else {
        *r.pick(&[
            1usize, 2, 3, 7, 7, 100, 100, 1000, 4096, 8191, 8192, 8193, 9000, 12000, 16384, 30000,
            65535, 65536, 65537, 70000,
        ])
    };
    let size_cap = if giant { 24_000_000 } else { 700_000 };
    let mut pats = vec![rand_bytes(r, &pal, long)];
    for _ in 0..r.range(0, 3) {
        let l = r.range(1, 6);
        pats.push(rand_bytes(r, &pal, l));
    }
    if r.chance(1, 2) {
        let j = r.below(pats.len());
        pats.swap(0, j);
    }
    let maxlen = long.max(6);
    let cap = (8 * maxlen).max(65536);
    let target = match r.below(8) {
        0 => cap,
        1 => cap + 1,
        2 => cap - 1,
        3 => r.range(cap + 1, cap + maxlen + 10),
        4 => r.range(65536, 200_000),
        5 => (cap + (cap - maxlen.min(cap - 1)) * r.range(1, 3) + r.below(3)).saturating_sub(1).min(size_cap),
        6 => r.range(2 * cap, 4 * cap).min(size_cap),
        _ => r.range(cap, 2 * cap + 5).min(size_cap),
    };
    // stream: mostly random with planted occurrences, in particular straddling
    // the first capacity boundary
    // a third of the streams are sparse: a filler byte outside the alphabet with only
    // planted occurrences (kilobyte-long non-match runs), the others random
    let mut stream = if r.chance(1, 3) { vec![b'.'; target] } else { rand_bytes(r, &pal, target) };
    let mut planted = Vec::new();
    let plant = |s: &mut Vec<u8>, at: usize, p: &[u8], planted: &mut Vec<(usize, usize)>| {
        if at + p.len() <= s.len() {
            s[at..at + p.len()].copy_from_slice(p);
            planted.push((at, p.len()));
        }
    };
    let longp = pats.iter().max_by_key(|p| p.len()).unwrap().clone();
    // refill boundaries when every read fills the buffer: cap, cap + (cap-min), ...
    let step = cap - maxlen.min(cap - 1);
    let boundaries: Vec<usize> = (0..6).map(|k| cap + k * step).filter(|&b| b < target + longp.len()).collect();
    for _ in 0..r.range(1, 5) {
        let p = if r.chance(2, 3) { longp.clone() } else { r.pick(&pats).clone() };
        let b = if boundaries.is_empty() { cap } else { *r.pick(&boundaries) };
        let at = match r.below(6) {
            0 => b.saturating_sub(r.range(0, p.len())),
            1 => r.below(target.max(1)),
            2 => target.saturating_sub(p.len()),
            3 => b.saturating_sub(p.len()) + r.below(3),
            4 => b.saturating_sub(1),
            _ => b.saturating_sub(p.len() / 2),
        };
        plant(&mut stream, at, &p, &mut planted);
    }
    planted.sort();
    let opts = BuildOpts {
        surface: *r.pick(&[Surface::Top, Surface::Top, Surface::Noncontiguous, Surface::Contiguous]),
        kind: *r.pick(&[Kind::Auto, Kind::Noncontiguous, Kind::Contiguous]),
        match_kind: MKind::Standard,
        start_both: false,
        case_insensitive: false,
        dense_depth: None,
        byte_classes: true,
        prefilter: r.chance(1, 2),
        via_ref: false,
    };
    let mode = r.below(7);
    let mut reads = Vec::new();
    let default_read = match mode {
        5 => *r.pick(&[ReadStep::Bytes(65536), ReadStep::Bytes(65535), ReadStep::Bytes(32768), ReadStep::Bytes(cap - maxlen.min(cap - 1)), ReadStep::Half]),
        6 => {
            // land exactly on / just before / just after the refill boundaries
            for &b in &boundaries {
                reads.push(ReadStep::Until(b.saturating_sub(r.below(3))));
                reads.push(ReadStep::Until(b + r.below(3)));
            }
            ReadStep::Fill
        }
        0 => ReadStep::Fill,
        1 => ReadStep::Bytes(r.range(1000, 9000)),
        2 => ReadStep::AllButOne,
        3 => {
            for &(o, l) in &planted {
                reads.push(ReadStep::Until(o + 1));
                reads.push(ReadStep::Until(o + l - 1));
            }
            ReadStep::Fill
        }
        _ => {
            for _ in 0..64 {
                reads.push(match r.below(4) {
                    0 => ReadStep::Fill,
                    1 => ReadStep::Half,
                    2 => ReadStep::Bytes(r.range(1, 70000)),
                    _ => ReadStep::AllButOne,
                });
            }
            ReadStep::Bytes(r.range(3000, 66000))
        }
    };
    let (reads, default_read) = if giant {
        // every refill rolls (memmoves) the whole retained tail of >= 128 KiB:
        // only large reads, or a run costs tens of seconds
        let d = *r.pick(&[ReadStep::Fill, ReadStep::Half, ReadStep::Bytes(1 << 20), ReadStep::Bytes(3_000_000), ReadStep::AllButOne]);
        (reads.into_iter().filter(|s| matches!(s, ReadStep::Until(_) | ReadStep::Fill | ReadStep::Half | ReadStep::AllButOne)).take(8).collect::<Vec<_>>(), d)
    } else {
        (reads, default_read)
    };
    let op = match prop {
        "C07" => StreamOp::Find,
        "C08" => *r.pick(&[StreamOp::Replace, StreamOp::ReplaceWith]),
        _ => match r.below(3) {
            0 => StreamOp::Find,
            1 => StreamOp::Replace,
            _ => StreamOp::ReplaceWith,
        },
    };
    let table = pats
        .iter()
        .enumerate()
        .map(|(i, _)| format!("<{}>", i).into_bytes())
        .collect();
    let sc = StreamScenario {
        prop: prop.to_string(),
        origin: format!("big seed={} idx={}", seed, idx),
        patterns: pats,
        opts,
        stream,
        spare: None,
        reads,
        default_read,
        scribble: r.chance(1, 2),
        vectored: r.chance(1, 3),
        op,
        table,
        closure: vec![*r.pick(&[ClosureStep::Table, ClosureStep::Echo])],
        writes: Vec::new(),
        default_write: *r.pick(&[WriteStep::All, WriteStep::Half, WriteStep::Accept(4096)]),
        faults: Vec::new(),
        infallible_ctor: false,
        drive: 0,
    };
    (sc, GenInfo { planted, class: "big" })
}
