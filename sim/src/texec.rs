//! Execution of threadsim operations against real searchers. The same code
//! runs under the baton scheduler (concurrent phase) and alone on a fresh
//! private searcher (reference).

use crate::scenario::{Fault, ReadStep, StreamOp};
use crate::seam::{lock, Shared, SimReader, SimWriter, World, BUDGET_MARK, PANIC_MARK};
use crate::streamsim::scripted_closure;
use crate::tscen::*;
use crate::tsut::{rm, BoxIter, TSut};
use aho_corasick::verif;
use std::io;
use std::panic::{catch_unwind, AssertUnwindSafe};
use std::sync::{Arc, Mutex};

/// An iterator parked between StartIter and ResumeIter.
pub enum InFlight<'s> {
    It(BoxIter<'s>),
    Exhausted,
    Dead,
}

pub struct Env<'e, 's> {
    pub specs: &'s [SearcherSpec],
    pub suts: &'s [Option<TSut>],
    pub fixed: &'s [Vec<u8>],
    pub slots: &'e Mutex<Vec<Option<InFlight<'s>>>>,
    pub counters: &'e Mutex<Counters>,
}

#[derive(Default, Debug, Clone)]
pub struct Counters {
    pub handoff_completed: u64,
    pub handoff_cross_thread: u64,
    pub client_crash: u64,
    pub io_error: u64,
    pub cancel: u64,
    pub clone_ops: u64,
    pub nested: u64,
    pub interleaved: u64,
    pub stream_ops: u64,
    pub packed_ops: u64,
    pub matches: u64,
    pub ops: u64,
}

pub fn panic_text(p: Box<dyn std::any::Any + Send>) -> String {
    if let Some(s) = p.downcast_ref::<&str>() {
        s.to_string()
    } else if let Some(s) = p.downcast_ref::<String>() {
        s.clone()
    } else {
        "<non-string panic>".to_string()
    }
}

fn sut<'a, 's: 'a>(env: &'a Env<'_, 's>, over: Option<&'a TSut>, s: usize) -> Result<&'a TSut, R> {
    if let Some(o) = over {
        return Ok(o);
    }
    match env.suts.get(s) {
        Some(Some(t)) => Ok(t),
        _ => Err(R::Err(format!("searcher {} unavailable", s))),
    }
}

/// Resolve a haystack; per-thread buffers are overwritten in place.
fn hay_prepare(bufs: &mut [Vec<u8>], h: &Hay) {
    if let Hay::Buf { slot, fill } = h {
        let n = bufs.len();
        let b = &mut bufs[slot % n];
        b.clear();
        b.extend_from_slice(fill);
    }
}

fn hay_get<'a, 's: 'a>(env: &'a Env<'_, 's>, bufs: &'a [Vec<u8>], h: &Hay) -> &'a [u8] {
    match h {
        Hay::Buf { slot, .. } => &bufs[slot % bufs.len()],
        Hay::Fixed(i) => env.fixed.get(*i).map(|v| v.as_slice()).unwrap_or(b""),
    }
}

fn count_matches(env: &Env<'_, '_>, out: &[R]) {
    let n = out.iter().filter(|r| matches!(r, R::M(..))).count() as u64;
    let mut c = env.counters.lock().unwrap();
    c.matches += n;
}

/// Reader used by threadsim stream ops: optional nested search from inside a read call.
pub struct NestReader<'a> {
    inner: SimReader,
    world: Shared,
    nested: Option<(usize, &'a TSut, &'a [u8])>,
    sink: Arc<Mutex<Vec<R>>>,
}

impl<'a> io::Read for NestReader<'a> {
    fn read(&mut self, buf: &mut [u8]) -> io::Result<usize> {
        if let Some((call, s, hay)) = self.nested {
            let cur = lock(&self.world).read_calls;
            if cur == call {
                let q = Search { s: 0, hay: Hay::Fixed(0), span: None, anchored: false, earliest: false };
                let r = s.try_find(hay, &q);
                let mut sink = self.sink.lock().unwrap();
                sink.push(R::Sep);
                sink.push(r);
            }
        }
        self.inner.read(buf)
    }
    fn read_vectored(&mut self, bufs: &mut [io::IoSliceMut<'_>]) -> io::Result<usize> {
        self.inner.read_vectored(bufs)
    }
}

fn make_world(part: &StreamPart) -> Shared {
    let sc = &part.sc;
    let mut w = World::new(sc, Arc::new(sc.stream.clone()), false);
    let soft = sc.reads.iter().filter(|s| matches!(s, ReadStep::SoftEof)).count();
    w.max_read_calls = Some(sc.stream.len() + soft + sc.faults.len() + 16);
    Arc::new(Mutex::new(w))
}

/// Build a stream find iterator for `part` (the spare override is read by Buffer::new).
fn stream_iter<'a>(
    t: &'a TSut,
    fixed: &'a [Vec<u8>],
    part: &StreamPart,
    sink: Arc<Mutex<Vec<R>>>,
) -> Result<(BoxIter<'a>, Shared), R> {
    let world = make_world(part);
    let nested = part.nested_at_read.and_then(|(call, h)| {
        fixed.get(h).map(|hay| (call, t, hay.as_slice()))
    });
    let rdr = NestReader { inner: SimReader(world.clone()), world: world.clone(), nested, sink };
    verif::set_stream_buffer_spare(part.sc.spare);
    let r = t.stream_iter(rdr, part.sc.infallible_ctor);
    verif::set_stream_buffer_spare(None);
    r.map(|it| (it, world))
}

fn iter_from_src<'a, 's: 'a>(
    env: &'a Env<'_, 's>,
    over: Option<&'a TSut>,
    bufs: &'a [Vec<u8>],
    src: &IterSrc,
    sink: Arc<Mutex<Vec<R>>>,
) -> Result<BoxIter<'a>, R> {
    match src {
        IterSrc::Mem { kind, q } => {
            let t = sut(env, over, q.s)?;
            let hay = hay_get(env, bufs, &q.hay);
            t.iter(*kind, hay, q)
        }
        IterSrc::Stream(part) => {
            let t = sut(env, over, part.s)?;
            let fixed: &'a [Vec<u8>] = env.fixed;
            stream_iter(t, fixed, part, sink).map(|x| x.0)
        }
    }
}

/// Like iter_from_src, but the iterator may outlive the operation (it is
/// parked in a slot): only scenario-owned haystacks and shared searchers.
fn iter_parkable<'s>(
    suts: &'s [Option<TSut>],
    fixed: &'s [Vec<u8>],
    src: &IterSrc,
    sink: Arc<Mutex<Vec<R>>>,
) -> Result<BoxIter<'s>, R> {
    let get = |s: usize| -> Result<&'s TSut, R> {
        match suts.get(s) {
            Some(Some(t)) => Ok(t),
            _ => Err(R::Err(format!("searcher {} unavailable", s))),
        }
    };
    match src {
        IterSrc::Mem { kind, q } => {
            let t = get(q.s)?;
            let hay: &'s [u8] = match &q.hay {
                Hay::Fixed(i) => fixed.get(*i).map(|v| v.as_slice()).unwrap_or(b""),
                Hay::Buf { .. } => return Err(R::Err("parked iterators need a fixed haystack".into())),
            };
            t.iter(*kind, hay, q)
        }
        IterSrc::Stream(part) => {
            let t = get(part.s)?;
            stream_iter(t, fixed, part, sink).map(|x| x.0)
        }
    }
}

/// Drive an iterator for at most `limit` items; returns true if it ended.
fn drive(it: &mut BoxIter<'_>, limit: Option<usize>, cap: usize, out: &mut Vec<R>) -> bool {
    let mut n = 0;
    loop {
        if let Some(l) = limit {
            if n >= l {
                return false;
            }
        }
        if n >= cap {
            out.push(R::Err("item budget exceeded".into()));
            return true;
        }
        match it.next() {
            None => {
                out.push(R::None);
                return true;
            }
            Some(r) => {
                out.push(r);
                n += 1;
            }
        }
    }
}

fn src_cap(env: &Env<'_, '_>, src: &IterSrc) -> usize {
    match src {
        IterSrc::Mem { q, .. } => {
            let l = match &q.hay {
                Hay::Buf { fill, .. } => fill.len(),
                Hay::Fixed(i) => env.fixed.get(*i).map(|v| v.len()).unwrap_or(0),
            };
            // overlapping iteration can yield several matches per position
            (l + 2) * 40 + 16
        }
        IterSrc::Stream(p) => p.sc.stream.len() + p.sc.faults.len() + 16,
    }
}

fn run_stream_op<'a, 's: 'a>(env: &'a Env<'_, 's>, over: Option<&'a TSut>, part: &StreamPart, out: &mut Vec<R>) {
    env.counters.lock().unwrap().stream_ops += 1;
    let sink = Arc::new(Mutex::new(Vec::new()));
    match part.kind {
        StreamOp::Find => {
            let cap = part.sc.stream.len() + part.sc.faults.len() + 16;
            let made = sut(env, over, part.s).and_then(|t| {
                let fixed: &'a [Vec<u8>] = env.fixed;
                stream_iter(t, fixed, part, sink.clone())
            });
            match made {
                Err(r) => out.push(r),
                Ok((mut it, world)) => {
                    let ended = drive(&mut it, part.cancel_after, cap, out);
                    if !ended {
                        env.counters.lock().unwrap().cancel += 1;
                        out.push(R::Sep);
                    }
                    drop(it);
                    let w = lock(&world);
                    let mut c = env.counters.lock().unwrap();
                    c.io_error += w.fired.iter().filter(|&&i| matches!(w.faults[i], Fault::Read { .. })).count() as u64;
                }
            }
        }
        StreamOp::Replace | StreamOp::ReplaceWith => {
            let t = match sut(env, over, part.s) {
                Ok(t) => t,
                Err(r) => {
                    out.push(r);
                    return;
                }
            };
            let world = make_world(part);
            let nested = part.nested_at_read.and_then(|(call, h)| {
                env.fixed.get(h).map(|hay| (call, t, hay.as_slice()))
            });
            let rdr = NestReader { inner: SimReader(world.clone()), world: world.clone(), nested, sink: sink.clone() };
            let wtr = SimWriter(world.clone());
            verif::set_stream_buffer_spare(part.sc.spare);
            let res = catch_unwind(AssertUnwindSafe(|| match t.as_sut() {
                None => Err(io::Error::new(io::ErrorKind::Other, "unsupported on packed")),
                Some(s) => {
                    if part.kind == StreamOp::Replace {
                        s.stream_replace_all(rdr, wtr, &part.sc.table)
                    } else {
                        s.stream_replace_all_with(
                            rdr,
                            wtr,
                            scripted_closure(world.clone(), &part.sc.closure, &part.sc.table),
                        )
                    }
                }
            }));
            verif::set_stream_buffer_spare(None);
            let mut w = lock(&world);
            {
                let mut c = env.counters.lock().unwrap();
                c.io_error += w
                    .fired
                    .iter()
                    .filter(|&&i| {
                        matches!(
                            w.faults[i],
                            Fault::Read { .. } | Fault::Write { .. } | Fault::WriteZero { .. } | Fault::WriteAfterBytes { .. } | Fault::Closure { .. }
                        )
                    })
                    .count() as u64;
            }
            match res {
                Ok(Ok(())) => out.push(R::Ok),
                Ok(Err(e)) => out.push(R::IoErr(format!("{:?}", e.kind()))),
                Err(p) => {
                    let t = panic_text(p);
                    if t.contains(PANIC_MARK) {
                        env.counters.lock().unwrap().client_crash += 1;
                    }
                    out.push(R::Panic(t));
                }
            }
            out.push(R::Bytes(std::mem::take(&mut w.accepted)));
            for (m, ok) in w.closure_log.iter() {
                out.push(R::M(m.0, m.1, m.2));
                out.push(R::Bool(*ok));
            }
        }
    }
    let mut s = sink.lock().unwrap();
    if !s.is_empty() {
        env.counters.lock().unwrap().nested += 1;
    }
    out.append(&mut s);
}

/// Execute one operation; never unwinds.
pub fn exec_op<'a, 's: 'a>(
    env: &'a Env<'_, 's>,
    over: Option<&'a TSut>,
    bufs: &'a mut Vec<Vec<u8>>,
    op: &Op,
    me: usize,
) -> Vec<R> {
    crate::parent::tick(); // every completed operation is a sign of life for the hang watchdog
    let mut out = Vec::new();
    let res = catch_unwind(AssertUnwindSafe(|| exec_inner(env, over, bufs, op, me, &mut out)));
    if let Err(p) = res {
        let t = panic_text(p);
        if t.contains(PANIC_MARK) {
            env.counters.lock().unwrap().client_crash += 1;
        }
        if t.contains(BUDGET_MARK) {
            out.push(R::Err("seam budget exceeded".into()));
        } else {
            out.push(R::Panic(t));
        }
    }
    verif::set_stream_buffer_spare(None);
    count_matches(env, &out);
    env.counters.lock().unwrap().ops += 1;
    out
}

fn prepare_src(bufs: &mut [Vec<u8>], src: &IterSrc) {
    if let IterSrc::Mem { q, .. } = src {
        hay_prepare(bufs, &q.hay);
    }
}

fn exec_inner<'a, 's: 'a>(
    env: &'a Env<'_, 's>,
    over: Option<&'a TSut>,
    bufs: &'a mut Vec<Vec<u8>>,
    op: &Op,
    me: usize,
    out: &mut Vec<R>,
) {
    match op {
        Op::Find(q) | Op::FindInfallible(q) | Op::IsMatch(q) => {
            hay_prepare(bufs, &q.hay);
            let bufs: &'a [Vec<u8>] = bufs;
            let t = match sut(env, over, q.s) {
                Ok(t) => t,
                Err(r) => {
                    out.push(r);
                    return;
                }
            };
            if matches!(t, TSut::Packed(_)) {
                env.counters.lock().unwrap().packed_ops += 1;
            }
            let hay = hay_get(env, bufs, &q.hay);
            out.push(match op {
                Op::Find(_) => t.try_find(hay, q),
                Op::FindInfallible(_) => t.find_infallible(hay, q),
                _ => t.is_match(hay, q),
            });
        }
        Op::Iter { kind, q, limit } => {
            hay_prepare(bufs, &q.hay);
            let bufs: &'a [Vec<u8>] = bufs;
            let src = IterSrc::Mem { kind: *kind, q: q.clone() };
            let cap = src_cap(env, &src);
            match iter_from_src(env, over, bufs, &src, Arc::new(Mutex::new(Vec::new()))) {
                Err(r) => out.push(r),
                Ok(mut it) => {
                    if !drive(&mut it, *limit, cap, out) {
                        env.counters.lock().unwrap().cancel += 1;
                    }
                }
            }
        }
        Op::ReplaceAll { q, table } => {
            hay_prepare(bufs, &q.hay);
            let bufs: &'a [Vec<u8>] = bufs;
            match sut(env, over, q.s) {
                Ok(t) => out.push(t.replace_all(hay_get(env, bufs, &q.hay), table)),
                Err(r) => out.push(r),
            }
        }
        Op::ReplaceAllWith { q, table, stop_after, nested, panic_at } => {
            hay_prepare(bufs, &q.hay);
            let bufs: &'a [Vec<u8>] = bufs;
            let t = match sut(env, over, q.s) {
                Ok(t) => t,
                Err(r) => {
                    out.push(r);
                    return;
                }
            };
            let hay = hay_get(env, bufs, &q.hay);
            let mut calls = 0usize;
            let mut side: Vec<R> = Vec::new();
            let nested_hay = nested.and_then(|h| env.fixed.get(h));
            let r = t.replace_all_with(hay, |m, bytes, dst| {
                if *panic_at == Some(calls) {
                    panic!("{}", PANIC_MARK);
                }
                side.push(rm(*m));
                side.push(R::Bool(bytes == &hay[m.start()..m.end()]));
                if let Some(nh) = nested_hay {
                    if calls == 0 {
                        let q2 = Search { s: q.s, hay: Hay::Fixed(0), span: None, anchored: false, earliest: false };
                        side.push(t.try_find(nh, &q2));
                    }
                }
                if let Some(e) = table.get(m.pattern().as_usize()) {
                    dst.extend_from_slice(e);
                }
                calls += 1;
                match stop_after {
                    Some(n) => calls < *n,
                    None => true,
                }
            });
            if nested_hay.is_some() && calls > 0 {
                env.counters.lock().unwrap().nested += 1;
            }
            out.push(r);
            out.append(&mut side);
        }
        Op::Stream(part) => run_stream_op(env, over, part, out),
        Op::Interleave2 { a, b } => {
            prepare_src(bufs, a);
            prepare_src(bufs, b);
            let bufs: &'a [Vec<u8>] = bufs;
            env.counters.lock().unwrap().interleaved += 1;
            let sink = Arc::new(Mutex::new(Vec::new()));
            let ia = iter_from_src(env, over, bufs, a, sink.clone());
            let ib = iter_from_src(env, over, bufs, b, sink.clone());
            let (mut ia, mut ib) = match (ia, ib) {
                (Ok(x), Ok(y)) => (x, y),
                (x, y) => {
                    if let Err(r) = x {
                        out.push(r);
                    }
                    out.push(R::Sep);
                    if let Err(r) = y {
                        out.push(r);
                    }
                    return;
                }
            };
            let cap = src_cap(env, a) + src_cap(env, b);
            let (mut da, mut db) = (false, false);
            let mut oa = Vec::new();
            let mut ob = Vec::new();
            let mut n = 0;
            while !(da && db) && n < cap {
                if !da {
                    da = drive(&mut ia, Some(1), usize::MAX, &mut oa);
                }
                if !db {
                    db = drive(&mut ib, Some(1), usize::MAX, &mut ob);
                }
                n += 1;
            }
            out.append(&mut oa);
            out.push(R::Sep);
            out.append(&mut ob);
            out.append(&mut sink.lock().unwrap());
        }
        Op::WithClone(inner) => {
            env.counters.lock().unwrap().clone_ops += 1;
            let s = op_searcher(inner);
            let base = match sut(env, over, s) {
                Ok(t) => t,
                Err(r) => {
                    out.push(r);
                    return;
                }
            };
            let c = base.clone_searcher();
            // the clone lives only for this op (parked iterators never borrow it)
            exec_inner(env, Some(&c), &mut *bufs, inner, me, out);
            drop(c);
        }
        Op::OrphanClone(inner) => {
            env.counters.lock().unwrap().clone_ops += 1;
            let s = op_searcher(inner);
            match env.specs.get(s).map(crate::tsut::build_tsut) {
                Some(Ok(orig)) => {
                    let c = orig.clone_searcher();
                    drop(orig);
                    exec_inner(env, Some(&c), &mut *bufs, inner, me, out);
                    drop(c);
                }
                Some(Err(e)) => out.push(R::Err(e)),
                None => out.push(R::Err(format!("searcher {} unavailable", s))),
            }
        }
        Op::StartIter { slot, src, first } => {
            let sink = Arc::new(Mutex::new(Vec::new()));
            let cap = src_cap(env, src);
            let suts: &'s [Option<TSut>] = env.suts;
            let fixed: &'s [Vec<u8>] = env.fixed;
            let made = catch_unwind(AssertUnwindSafe(|| iter_parkable(suts, fixed, src, sink.clone())));
            let parked: InFlight<'s> = match made {
                Err(p) => {
                    // constructor panicked (e.g. infallible stream ctor on an
                    // unsupported searcher): the consumer must still be released
                    out.push(R::Panic(panic_text(p)));
                    InFlight::Dead
                }
                Ok(Err(r)) => {
                    out.push(r);
                    InFlight::Exhausted
                }
                Ok(Ok(mut it)) => {
                    let r = catch_unwind(AssertUnwindSafe(|| drive(&mut it, Some(*first), cap, out)));
                    match r {
                        Ok(true) => InFlight::Exhausted,
                        Ok(false) => InFlight::It(it),
                        Err(p) => {
                            out.push(R::Panic(panic_text(p)));
                            InFlight::Dead
                        }
                    }
                }
            };
            out.append(&mut sink.lock().unwrap());
            {
                let mut s = env.slots.lock().unwrap();
                if *slot < s.len() {
                    s[*slot] = Some(parked);
                }
            }
            if let Some((sched, _)) = crate::tsched::current() {
                sched.unblock_all();
            }
            let _ = me;
        }
        Op::ResumeIter { slot } => {
            let ready = || env.slots.lock().unwrap().get(*slot).map(|s| s.is_some()).unwrap_or(true);
            let ok = match crate::tsched::current() {
                Some((sched, tid)) => sched.block_until(tid, crate::sched::SEAM_OP, ready),
                None => {
                    // no scheduler (reference / free-running): the producer is
                    // either already done or another real thread; wait for it
                    let mut spins = 0u64;
                    while !ready() && spins < 2_000_000 {
                        std::thread::yield_now();
                        spins += 1;
                    }
                    ready()
                }
            };
            if !ok {
                out.push(R::Err("handoff never arrived".into()));
                return;
            }
            let parked = env.slots.lock().unwrap().get_mut(*slot).and_then(|s| s.take());
            match parked {
                None => out.push(R::Err("empty slot".into())),
                Some(InFlight::Exhausted) => out.push(R::Sep),
                Some(InFlight::Dead) => out.push(R::Err("producer crashed".into())),
                Some(InFlight::It(mut it)) => {
                    env.counters.lock().unwrap().handoff_completed += 1;
                    drive(&mut it, None, 100_000, out);
                }
            }
        }
    }
}

pub fn op_searcher(op: &Op) -> usize {
    match op {
        Op::Find(q) | Op::FindInfallible(q) | Op::IsMatch(q) => q.s,
        Op::Iter { q, .. } | Op::ReplaceAll { q, .. } | Op::ReplaceAllWith { q, .. } => q.s,
        Op::Stream(p) => p.s,
        Op::Interleave2 { a, .. } => src_searcher(a),
        Op::WithClone(inner) | Op::OrphanClone(inner) => op_searcher(inner),
        Op::StartIter { src, .. } => src_searcher(src),
        Op::ResumeIter { .. } => 0,
    }
}

pub fn src_searcher(src: &IterSrc) -> usize {
    match src {
        IterSrc::Mem { q, .. } => q.s,
        IterSrc::Stream(p) => p.s,
    }
}

pub fn op_searchers(op: &Op) -> Vec<usize> {
    match op {
        Op::Interleave2 { a, b } => vec![src_searcher(a), src_searcher(b)],
        Op::ResumeIter { .. } => vec![],
        other => vec![op_searcher(other)],
    }
}
