//! streamsim: executes one explicit stream scenario against the real library
//! through the simulated reader / writer / closure and judges the history.
//!
//! `exec` is a pure function of (scenario, code under test).

use crate::scenario::{
    show, ClosureStep, ErrKind, Fault, StreamOp, StreamScenario,
};
use crate::seam::{
    closure_call, closure_done, closure_failed_after_write, lock, Ev, RRet, Shared, SimReader,
    SimWriter, World, PANIC_MARK,
};
use crate::sut::{self, m3, Sut, M};
use aho_corasick::verif;
use serde::Serialize;
use std::io::{self, Write};
use std::panic::{catch_unwind, AssertUnwindSafe};
use std::sync::{Arc, Mutex};

pub const NSITES: usize = verif::site::COUNT;

#[derive(Clone, Debug, Serialize, PartialEq)]
pub struct Violation {
    pub class: String,
    pub detail: String,
}

fn viol(class: &str, detail: String) -> Violation {
    Violation { class: class.to_string(), detail }
}

/// Raw observations of one execution.
#[derive(Debug)]
pub struct Run {
    pub rejected: Option<String>,
    pub panicked: Option<String>,
    pub budget_exceeded: bool,
    /// matches yielded (Find) with the number of bytes delivered at that time
    pub got: Vec<(M, usize)>,
    /// io::ErrorKinds yielded as iterator items, in order, with index into `got` at that time
    pub item_errs: Vec<(io::ErrorKind, usize)>,
    pub ended: bool, // iterator returned None / replace returned
    pub ret: Option<Result<(), io::ErrorKind>>,
    pub closure_matches: Vec<(M, bool)>,
    pub delivered: usize,
    pub accepted: Vec<u8>,
    pub read_calls: usize,
    pub write_calls: usize,
    pub flush_calls: usize,
    pub closure_calls: usize,
    pub last_read: Option<RRet>,
    pub pending_read_err: Option<ErrKind>,
    pub seam_call_while_pending: bool,
    pub retried_interrupted: usize,
    pub fatal_write_err: Option<(io::ErrorKind, usize)>,
    pub writes_after_fatal: usize,
    pub reads_after_fatal: usize,
    pub fired: Vec<Fault>,
    pub sites: [u64; NSITES],
    pub hash: u64,
    pub n_events: u64,
    pub events: Vec<Ev>,
    /// cumulative delivered bytes after each data read (read boundaries)
    pub boundaries: Vec<usize>,
    /// read-call indices that directly followed a buffer roll
    pub reads_after_roll: Vec<usize>,
    pub probe_read_filled_buffer: u64,
    pub first_read_offer: Option<usize>,
    pub probe_short_write: u64,
    pub probe_write_interrupted: u64,
    pub probe_write_fault_in_closure: u64,
    pub probe_write_fault_in_nonmatch: u64,
    pub first_violation_online: Option<Violation>,
}

struct BudgetPanic;

/// Reader wrapper that enforces the run's seam-call budget, records read
/// boundaries and attributes rolls to read calls.
struct BudgetReader {
    inner: SimReader,
    world: Shared,
    max_calls: usize,
    aux: Arc<Mutex<Aux>>,
}

#[derive(Default, Debug)]
struct Aux {
    sites: Vec<u64>,
    boundaries: Vec<usize>,
    reads_after_roll: Vec<usize>,
    rolls_seen: u64,
    reads_after_fatal: usize,
}

fn absorb_sites(aux: &mut Aux) {
    let c = verif::take_point_counts();
    if aux.sites.len() != NSITES {
        aux.sites = vec![0; NSITES];
    }
    for i in 0..NSITES {
        aux.sites[i] += c[i];
    }
}

impl io::Read for BudgetReader {
    fn read(&mut self, buf: &mut [u8]) -> io::Result<usize> {
        // every seam call is a sign of life for the hang watchdog (which exists for
        // runs that spin WITHOUT reaching a seam)
        crate::parent::tick();
        let call;
        {
            let w = lock(&self.world);
            call = w.read_calls;
            if w.read_calls >= self.max_calls {
                drop(w);
                std::panic::panic_any(BudgetPanic);
            }
            let mut aux = self.aux.lock().unwrap();
            absorb_sites(&mut aux);
            let rolls = aux.sites[verif::site::BUF_ROLL as usize];
            if rolls > aux.rolls_seen {
                aux.rolls_seen = rolls;
                aux.reads_after_roll.push(call);
            }
            if w.fatal_write_err.is_some() {
                aux.reads_after_fatal += 1;
            }
        }
        let r = self.inner.read(buf);
        self.after(&r);
        r
    }
    fn read_vectored(&mut self, bufs: &mut [io::IoSliceMut<'_>]) -> io::Result<usize> {
        // same bookkeeping as read(): delegate through a zero-length read() prologue
        // is not possible, so repeat it
        crate::parent::tick();
        {
            let w = lock(&self.world);
            let call = w.read_calls;
            if w.read_calls >= self.max_calls {
                drop(w);
                std::panic::panic_any(BudgetPanic);
            }
            let mut aux = self.aux.lock().unwrap();
            absorb_sites(&mut aux);
            let rolls = aux.sites[verif::site::BUF_ROLL as usize];
            if rolls > aux.rolls_seen {
                aux.rolls_seen = rolls;
                aux.reads_after_roll.push(call);
            }
            if w.fatal_write_err.is_some() {
                aux.reads_after_fatal += 1;
            }
        }
        let r = self.inner.read_vectored(bufs);
        self.after(&r);
        r
    }
}

impl BudgetReader {
    fn after(&self, r: &io::Result<usize>) {
        if let Ok(n) = r {
            if *n > 0 {
                let w = lock(&self.world);
                let mut aux = self.aux.lock().unwrap();
                aux.boundaries.push(w.pos);
            }
        }
    }
}

/// Second and third fault-free pass over the same scenario through `Iterator::count` and
/// `Iterator::last` (which a library may specialise): both must describe the sequence the
/// `next()` pass produced.
fn count_last_pass(sc: &StreamScenario, sut: &Sut, run: &Run) -> Option<Violation> {
    let mk = || {
        let world: Shared = Arc::new(Mutex::new(World::new(sc, Arc::new(sc.stream.clone()), false)));
        BudgetReader {
            inner: SimReader(world.clone()),
            world,
            max_calls: run.read_calls + 4,
            aux: Arc::new(Mutex::new(Aux::default())),
        }
    };
    verif::set_stream_buffer_spare(sc.spare);
    let r = catch_unwind(AssertUnwindSafe(|| sut.stream_count_last(mk(), mk())));
    verif::set_stream_buffer_spare(None);
    let _ = verif::take_point_counts();
    let n_items = run.got.len() + run.item_errs.len();
    match r {
        Err(p) => {
            let (budget, text) = panic_text(p);
            Some(if budget {
                viol("livelock", format!("count()/last() needed more than the {} read calls of the next() pass", run.read_calls))
            } else {
                viol("panic", format!("panic in count()/last() of a fault-free stream search: {}", text))
            })
        }
        Ok(Err(e)) => Some(viol("rejected", format!("stream constructor rejected on the second pass: {}", e))),
        Ok(Ok((n, last))) => {
            if n != n_items {
                return Some(viol("match-seq-mismatch", format!(
                    "count() of the stream iterator is {}, the next() loop over the same reads yielded {} items", n, n_items)));
            }
            let last = match last {
                None => None,
                Some(Ok(m)) => Some(m3(m)),
                Some(Err(e)) => {
                    return Some(viol("spurious-error", format!("last() yielded Err({:?}) on a fault-free stream", e.kind())));
                }
            };
            let exp_last = run.got.last().map(|x| x.0);
            if last != exp_last {
                return Some(viol("match-seq-mismatch", format!(
                    "last() of the stream iterator is {:?}, the next() loop ended with {:?}", last, exp_last)));
            }
            None
        }
    }
}

pub fn silence_panics() {
    std::panic::set_hook(Box::new(|_| {}));
}

fn panic_text(p: Box<dyn std::any::Any + Send>) -> (bool, String) {
    if p.is::<BudgetPanic>() || p.is::<crate::sut::StopDrive>() {
        return (true, "seam-call budget exceeded".into());
    }
    let s = if let Some(s) = p.downcast_ref::<&str>() {
        s.to_string()
    } else if let Some(s) = p.downcast_ref::<String>() {
        s.clone()
    } else {
        "<non-string panic>".to_string()
    };
    (false, s)
}

/// The scripted replacement closure shared by streamsim and threadsim.
pub fn scripted_closure<'a>(
    w2: Shared,
    script: &'a [ClosureStep],
    table: &'a [Vec<u8>],
) -> impl FnMut(&aho_corasick::Match, &[u8], &mut SimWriter) -> io::Result<()> + 'a {
    move |m, bytes, wtr: &mut SimWriter| {
        let mm = m3(*m);
        let (step, failed, after_write) = closure_call(&w2, script, mm, bytes);
        let r = (|| -> io::Result<()> {
            if let Some(kind) = failed {
                if !after_write {
                    return Err(kind.make("injected closure fault"));
                }
            }
            let entry: &[u8] =
                table.get(mm.0 as usize).map(|v| v.as_slice()).unwrap_or(b"");
            match step {
                ClosureStep::Table => wtr.write_all(entry)?,
                ClosureStep::TableBytewise => {
                    for b in entry {
                        wtr.write_all(&[*b])?;
                    }
                }
                ClosureStep::Nothing => {}
                ClosureStep::Echo => wtr.write_all(bytes)?,
            }
            if let Some(kind) = failed {
                closure_failed_after_write(&w2, kind);
                return Err(kind.make("injected closure fault (after write)"));
            }
            Ok(())
        })();
        closure_done(&w2);
        r
    }
}

/// Execute the scenario once (with the faults it lists).
pub fn run_once(sc: &StreamScenario, sut: &Sut, record: bool) -> Run {
    let stream = Arc::new(sc.stream.clone());
    run_once_shared(sc, sut, stream, record)
}

pub fn run_once_shared(
    sc: &StreamScenario,
    sut: &Sut,
    stream: Arc<Vec<u8>>,
    record: bool,
) -> Run {
    verif::set_stream_buffer_spare(sc.spare);
    let _ = verif::take_point_counts();
    let world: Shared = Arc::new(Mutex::new(World::new(sc, stream, record)));
    let aux = Arc::new(Mutex::new(Aux::default()));
    let soft = sc
        .reads
        .iter()
        .filter(|s| matches!(s, crate::scenario::ReadStep::SoftEof))
        .count()
        + if matches!(sc.default_read, crate::scenario::ReadStep::SoftEof) {
            sc.stream.len() + 8
        } else {
            0
        };
    let max_calls = sc.stream.len() + soft + sc.faults.len() + 16;
    let mut rdr = BudgetReader {
        inner: SimReader(world.clone()),
        world: world.clone(),
        max_calls,
        aux: aux.clone(),
    };
    let max_items = sc.stream.len() + sc.faults.len() + 8;

    let mut got: Vec<(M, usize)> = Vec::new();
    let mut item_errs: Vec<(io::ErrorKind, usize)> = Vec::new();
    let mut ended = false;
    let mut ret: Option<Result<(), io::ErrorKind>> = None;
    let mut rejected = None;
    let mut online: Option<Violation> = None;
    let mut budget_exceeded = false;
    let mut closure_matches: Vec<(M, bool)> = Vec::new();

    crate::sut::set_drive(if sc.op == StreamOp::Find { sc.drive } else { 0 });
    let result = catch_unwind(AssertUnwindSafe(|| match sc.op {
        StreamOp::Find => {
            let w2 = world.clone();
            let r = sut.stream_find(&mut rdr, sc.infallible_ctor, |item| {
                let mut w = lock(&w2);
                match item {
                    None => {
                        w.ev(Ev::ItemNone);
                        if w.pending_read_err.is_some() && online.is_none() {
                            online = Some(viol(
                                "error-not-surfaced",
                                format!(
                                    "iterator ended while read error {:?} was never yielded",
                                    w.pending_read_err
                                ),
                            ));
                        }
                        ended = true;
                        false
                    }
                    Some(Ok(m)) => {
                        let m = m3(m);
                        w.ev(Ev::Item(m));
                        got.push((m, w.pos));
                        if got.len() > max_items {
                            budget_exceeded = true;
                            return false;
                        }
                        true
                    }
                    Some(Err(e)) => {
                        let k = e.kind();
                        w.ev(Ev::ItemErr(k));
                        match w.pending_read_err.take() {
                            None => {
                                if online.is_none() {
                                    online = Some(viol(
                                        "spurious-error",
                                        format!("iterator yielded Err({:?}) but no fault was injected", k),
                                    ));
                                }
                            }
                            Some(inj) => {
                                if inj.to_io() != k && online.is_none() {
                                    online = Some(viol(
                                        "error-kind-changed",
                                        format!("injected {:?}, iterator yielded {:?}", inj, k),
                                    ));
                                }
                            }
                        }
                        item_errs.push((k, got.len()));
                        if item_errs.len() > max_items {
                            budget_exceeded = true;
                            return false;
                        }
                        true
                    }
                }
            });
            if let Err(e) = r {
                lock(&world).ev(Ev::Rejected);
                rejected = Some(e);
            }
        }
        StreamOp::Replace => {
            let wtr = SimWriter(world.clone());
            let r = sut.stream_replace_all(&mut rdr, wtr, &sc.table);
            let mut w = lock(&world);
            match r {
                Ok(()) => {
                    w.ev(Ev::RetOk);
                    ret = Some(Ok(()));
                }
                Err(e) => {
                    w.ev(Ev::RetErr(e.kind()));
                    ret = Some(Err(e.kind()));
                }
            }
            ended = true;
        }
        StreamOp::ReplaceWith => {
            let wtr = SimWriter(world.clone());
            let w2 = world.clone();
            let table = &sc.table;
            let script = &sc.closure;
            let r = sut.stream_replace_all_with(
                &mut rdr,
                wtr,
                scripted_closure(w2, script, table),
            );
            let mut w = lock(&world);
            match r {
                Ok(()) => {
                    w.ev(Ev::RetOk);
                    ret = Some(Ok(()));
                }
                Err(e) => {
                    w.ev(Ev::RetErr(e.kind()));
                    ret = Some(Err(e.kind()));
                }
            }
            ended = true;
        }
    }));
    let mut panicked = None;
    if let Err(p) = result {
        let (budget, text) = panic_text(p);
        if budget {
            budget_exceeded = true;
        } else {
            panicked = Some(text);
        }
    }
    verif::set_stream_buffer_spare(None);
    crate::sut::set_drive(0);
    let mut aux = aux.lock().unwrap();
    absorb_sites(&mut aux);
    let mut w = lock(&world);
    closure_matches.append(&mut w.closure_log);
    let mut sites = [0u64; NSITES];
    sites.copy_from_slice(&aux.sites);
    Run {
        rejected,
        panicked,
        budget_exceeded,
        got,
        item_errs,
        ended,
        ret,
        closure_matches,
        delivered: w.pos,
        accepted: std::mem::take(&mut w.accepted),
        read_calls: w.read_calls,
        write_calls: w.write_calls,
        flush_calls: w.flush_calls,
        closure_calls: w.closure_calls,
        last_read: w.last_read,
        pending_read_err: w.pending_read_err,
        seam_call_while_pending: w.seam_call_while_pending,
        retried_interrupted: w.retried_interrupted,
        fatal_write_err: w.fatal_write_err,
        writes_after_fatal: w.writes_after_fatal,
        reads_after_fatal: aux.reads_after_fatal,
        fired: w.fired.iter().map(|&i| w.faults[i]).collect(),
        sites,
        hash: w.hash.finish(),
        n_events: w.n_events,
        events: std::mem::take(&mut w.events),
        boundaries: std::mem::take(&mut aux.boundaries),
        reads_after_roll: std::mem::take(&mut aux.reads_after_roll),
        probe_read_filled_buffer: w.probe_read_filled_buffer,
        first_read_offer: w.first_read_offer,
        probe_short_write: w.probe_short_write,
        probe_write_interrupted: w.probe_write_interrupted,
        probe_write_fault_in_closure: w.probe_write_fault_in_closure,
        probe_write_fault_in_nonmatch: w.probe_write_fault_in_nonmatch,
        first_violation_online: online,
    }
}

/// What the in-memory side of the library says (the right-hand sides of C07
/// and C08), computed on the same searcher.
pub struct Reference {
    pub matches_full: Vec<M>,
}

pub fn reference(sc: &StreamScenario, sut: &Sut) -> Result<Reference, String> {
    let r = catch_unwind(AssertUnwindSafe(|| sut.find_all(&sc.stream)));
    match r {
        Err(p) => Err(format!("in-memory find_iter panicked: {}", panic_text(p).1)),
        Ok(Err(e)) => Err(format!("in-memory find_iter rejected: {}", e)),
        Ok(Ok(m)) => Ok(Reference { matches_full: m }),
    }
}

fn expected_output(
    sc: &StreamScenario,
    sut: &Sut,
    rf: &Reference,
    delivered: usize,
) -> Result<Vec<u8>, String> {
    let hay = &sc.stream[..delivered];
    match sc.op {
        StreamOp::Replace => {
            let r = catch_unwind(AssertUnwindSafe(|| {
                sut.replace_all_bytes(hay, &sc.table)
            }));
            match r {
                Err(p) => Err(format!("in-memory replace_all panicked: {}", panic_text(p).1)),
                Ok(Err(e)) => Err(format!("in-memory replace_all rejected: {}", e)),
                Ok(Ok(v)) => Ok(v),
            }
        }
        _ => {
            // splice of the in-memory matches with the script's outputs
            let mut out = Vec::new();
            let mut last = 0;
            let mut j = 0;
            for &(pid, s, e) in rf.matches_full.iter() {
                if e > delivered {
                    break;
                }
                out.extend_from_slice(&hay[last..s]);
                let step = if sc.closure.is_empty() {
                    ClosureStep::Table
                } else {
                    sc.closure[j % sc.closure.len()]
                };
                match step {
                    ClosureStep::Table | ClosureStep::TableBytewise => {
                        if let Some(t) = sc.table.get(pid as usize) {
                            out.extend_from_slice(t);
                        }
                    }
                    ClosureStep::Nothing => {}
                    ClosureStep::Echo => out.extend_from_slice(&hay[s..e]),
                }
                last = e;
                j += 1;
            }
            out.extend_from_slice(&hay[last..]);
            Ok(out)
        }
    }
}

fn first_diff(a: &[u8], b: &[u8]) -> usize {
    a.iter().zip(b.iter()).position(|(x, y)| x != y).unwrap_or(a.len().min(b.len()))
}

fn eof_honest(run: &Run) -> bool {
    matches!(run.last_read, Some(RRet::Eof) | Some(RRet::SoftEof))
}

/// Judge a fault-free run (C07 / C08 oracles; EOF honesty).
pub fn judge_fault_free(
    sc: &StreamScenario,
    sut: &Sut,
    rf: &Reference,
    run: &Run,
) -> Option<Violation> {
    if let Some(r) = &run.rejected {
        return Some(viol("rejected", format!("stream constructor rejected a standard non-empty pattern set: {}", r)));
    }
    if let Some(p) = &run.panicked {
        return Some(viol("panic", format!("panic during fault-free stream operation: {}", p)));
    }
    if run.budget_exceeded {
        return Some(viol("livelock", format!(
            "seam-call budget exceeded: {} read calls / {} items for a {}-byte stream",
            run.read_calls, run.got.len() + run.item_errs.len(), sc.stream.len())));
    }
    if let Some(v) = &run.first_violation_online {
        return Some(v.clone());
    }
    if !run.ended {
        return Some(viol("livelock", "operation did not finish".into()));
    }
    if !eof_honest(run) {
        return Some(viol("premature-end", format!(
            "operation finished although the reader never reported end of stream (last read: {:?}; {} of {} bytes delivered)",
            run.last_read, run.delivered, sc.stream.len())));
    }
    let exp: Vec<M> = rf
        .matches_full
        .iter()
        .cloned()
        .filter(|m| m.2 <= run.delivered)
        .collect();
    match sc.op {
        StreamOp::Find => {
            for (i, (m, at)) in run.got.iter().enumerate() {
                if m.2 > *at {
                    return Some(viol("acausal-match", format!(
                        "match #{} {:?} yielded when only {} bytes had been delivered", i, m, at)));
                }
                match exp.get(i) {
                    Some(e) if e == m => {}
                    other => {
                        return Some(viol("match-seq-mismatch", format!(
                            "match #{}: stream yielded {:?}, find_iter on the concatenation yields {:?}",
                            i, m, other)));
                    }
                }
            }
            if run.got.len() < exp.len() {
                return Some(viol("match-seq-mismatch", format!(
                    "stream search ended after {} matches; find_iter yields {} (first missing {:?})",
                    run.got.len(), exp.len(), exp[run.got.len()])));
            }
            if sc.drive == 3 && sc.faults.is_empty() {
                return count_last_pass(sc, sut, run);
            }
            None
        }
        StreamOp::Replace | StreamOp::ReplaceWith => {
            match run.ret {
                Some(Ok(())) => {}
                other => {
                    return Some(viol("spurious-error", format!(
                        "fault-free replacement returned {:?}", other)));
                }
            }
            if sc.op == StreamOp::ReplaceWith {
                for (i, (m, ok)) in run.closure_matches.iter().enumerate() {
                    match exp.get(i) {
                        Some(e) if e == m => {}
                        other => {
                            return Some(viol("closure-args-mismatch", format!(
                                "closure call #{} got match {:?}, in-memory iterator yields {:?}", i, m, other)));
                        }
                    }
                    if !ok {
                        return Some(viol("closure-args-mismatch", format!(
                            "closure call #{} for {:?}: bytes handed in differ from stream[{}..{}]", i, m, m.1, m.2)));
                    }
                }
                if run.closure_matches.len() != exp.len() {
                    return Some(viol("closure-args-mismatch", format!(
                        "closure called {} times, in-memory iterator yields {} matches",
                        run.closure_matches.len(), exp.len())));
                }
            }
            let want = match expected_output(sc, sut, rf, run.delivered) {
                Ok(w) => w,
                Err(e) => return Some(viol("reference-failed", e)),
            };
            if run.accepted != want {
                let d = first_diff(&run.accepted, &want);
                return Some(viol("output-mismatch", format!(
                    "output differs from in-memory replace_all at byte {} (got {} bytes, want {}): got ..{} want ..{}",
                    d, run.accepted.len(), want.len(),
                    show(&run.accepted[d.saturating_sub(4)..(d + 8).min(run.accepted.len())]),
                    show(&want[d.saturating_sub(4)..(d + 8).min(want.len())]))));
            }
            None
        }
    }
}

/// Judge a run with injected faults against its fault-free calibration run
/// (C18 oracles, relaxed deliberately and narrowly; see DESIGN §3).
pub fn judge_faulted(
    sc: &StreamScenario,
    calib: &Run,
    run: &Run,
    allow_panic_faults: bool,
) -> Option<Violation> {
    if let Some(r) = &run.rejected {
        return Some(viol("rejected", format!("stream constructor rejected: {}", r)));
    }
    if let Some(p) = &run.panicked {
        let injected = p.contains(PANIC_MARK);
        if !(allow_panic_faults && injected) {
            return Some(viol("panic", format!("panic on a fault path: {}", p)));
        }
    }
    if run.budget_exceeded {
        return Some(viol("livelock", format!(
            "no completion within the fault-free budget after the last fault: {} read calls, {} items",
            run.read_calls, run.got.len() + run.item_errs.len())));
    }
    if let Some(v) = &run.first_violation_online {
        return Some(v.clone());
    }
    if run.seam_call_while_pending {
        return Some(viol("error-not-surfaced",
            "the library called read again before reporting the injected read error".into()));
    }
    match sc.op {
        StreamOp::Find => {
            // prefix consistency at every point, equality at the end
            for (i, (m, at)) in run.got.iter().enumerate() {
                if m.2 > *at {
                    return Some(viol("acausal-match", format!(
                        "match #{} {:?} yielded when only {} bytes had been delivered", i, m, at)));
                }
                match calib.got.get(i) {
                    Some((e, _)) if e == m => {}
                    other => {
                        return Some(viol("non-prefix-after-fault", format!(
                            "match #{} is {:?}; fault-free sequence has {:?}", i, m, other.map(|x| x.0))));
                    }
                }
            }
            if run.ended {
                if run.pending_read_err.is_some() {
                    return Some(viol("error-not-surfaced",
                        "iterator ended with an injected read error never yielded".into()));
                }
                if !eof_honest(run) {
                    return Some(viol("premature-end", format!(
                        "iterator ended although the reader did not report end of stream (last read {:?})",
                        run.last_read)));
                }
                if run.got.len() != calib.got.len() {
                    return Some(viol("match-lost-after-fault", format!(
                        "polling on after transient read errors yielded {} matches; fault-free run yields {}",
                        run.got.len(), calib.got.len())));
                }
            } else if run.panicked.is_none() {
                return Some(viol("livelock", "iterator neither ended nor failed".into()));
            }
            let injected_reads = run
                .fired
                .iter()
                .filter(|f| matches!(f, Fault::Read { .. }))
                .count();
            if run.item_errs.len() + run.retried_interrupted != injected_reads
                && run.panicked.is_none()
            {
                return Some(viol("error-not-surfaced", format!(
                    "{} read errors injected, {} errors yielded", injected_reads, run.item_errs.len())));
            }
            None
        }
        StreamOp::Replace | StreamOp::ReplaceWith => {
            // bytes accepted are a prefix of the fault-free output
            let d = first_diff(&run.accepted, &calib.accepted);
            if d < run.accepted.len() {
                return Some(viol("non-prefix-after-fault", format!(
                    "bytes written are not a prefix of the fault-free output: differ at byte {} (written {} bytes)",
                    d, run.accepted.len())));
            }
            for (i, (m, ok)) in run.closure_matches.iter().enumerate() {
                match calib.closure_matches.get(i) {
                    Some((e, _)) if e == m && *ok => {}
                    other => {
                        return Some(viol("non-prefix-after-fault", format!(
                            "closure call #{} got {:?} (bytes ok: {}), fault-free run had {:?}", i, m, ok, other)));
                    }
                }
            }
            if run.panicked.is_some() {
                return None; // injected crash: nothing more to demand
            }
            let read_err = run.pending_read_err;
            let fatal = run.fatal_write_err;
            match (read_err, fatal, run.ret) {
                (None, None, Some(Ok(()))) => {
                    // only retryable noise fired: full output required
                    if run.accepted != calib.accepted {
                        return Some(viol("output-mismatch", format!(
                            "replacement returned Ok but wrote {} bytes; fault-free output has {}",
                            run.accepted.len(), calib.accepted.len())));
                    }
                    if !eof_honest(run) {
                        return Some(viol("premature-end", format!(
                            "replacement returned Ok although the reader did not report end of stream (last read {:?})",
                            run.last_read)));
                    }
                    None
                }
                (None, None, Some(Err(k))) => Some(viol("spurious-error", format!(
                    "replacement returned Err({:?}) but only retryable noise was injected", k))),
                (_, _, None) => Some(viol("livelock", "replacement did not return".into())),
                (Some(rk), _, Some(r)) if fatal.is_none() => match r {
                    Ok(()) => Some(viol("error-not-surfaced", format!(
                        "read failed with {:?} but replacement returned Ok", rk))),
                    Err(k) if k != rk.to_io() => Some(viol("error-kind-changed", format!(
                        "read failed with {:?}, replacement returned {:?}", rk, k))),
                    Err(_) => None,
                },
                (_, Some((wk, _at)), Some(r)) => {
                    // Further seam calls after the failure are not judged by
                    // themselves (the property does not forbid them): what is
                    // demanded is prefix consistency (above) and that the
                    // error comes back with its kind.
                    match r {
                        Ok(()) => Some(viol("error-not-surfaced", format!(
                            "writer/closure failed with {:?} but replacement returned Ok", wk))),
                        Err(k) if k != wk => Some(viol("error-kind-changed", format!(
                            "writer/closure failed with {:?}, replacement returned {:?}", wk, k))),
                        Err(_) => None,
                    }
                }
                _ => None,
            }
        }
    }
}

/// Full verdict for a scenario as stored in a replay file: the fault-free
/// run is judged with the strict oracles, and if the scenario lists faults
/// the faulted run is judged against it.
pub struct Verdict {
    pub violation: Option<Violation>,
    pub invalid: Option<String>,
    pub calib: Option<Run>,
    pub faulted: Option<Run>,
}

pub fn exec(sc: &StreamScenario, record: bool) -> Verdict {
    let built = catch_unwind(AssertUnwindSafe(|| sut::build(&sc.patterns, &sc.opts)));
    let sut = match built {
        Err(p) => {
            return Verdict {
                violation: None,
                invalid: Some(format!("build panicked: {}", panic_text(p).1)),
                calib: None,
                faulted: None,
            }
        }
        Ok(Err(e)) => {
            return Verdict {
                violation: None,
                invalid: Some(format!("build failed: {}", e)),
                calib: None,
                faulted: None,
            }
        }
        Ok(Ok(s)) => s,
    };
    exec_with(sc, &sut, record)
}

pub fn exec_with(sc: &StreamScenario, sut: &Sut, record: bool) -> Verdict {
    let rf = match reference(sc, sut) {
        Ok(r) => r,
        Err(e) => {
            return Verdict { violation: None, invalid: Some(e), calib: None, faulted: None }
        }
    };
    let mut base = sc.clone();
    base.faults.clear();
    let calib = run_once(&base, sut, record && sc.faults.is_empty());
    if let Some(v) = judge_fault_free(&base, sut, &rf, &calib) {
        return Verdict { violation: Some(v), invalid: None, calib: Some(calib), faulted: None };
    }
    if sc.faults.is_empty() {
        return Verdict { violation: None, invalid: None, calib: Some(calib), faulted: None };
    }
    let run = run_once(sc, sut, record);
    let v = judge_faulted(sc, &calib, &run, false);
    Verdict { violation: v, invalid: None, calib: Some(calib), faulted: Some(run) }
}

pub fn site_names() -> Vec<&'static str> {
    vec![
        "stream_next_loop",
        "stream_nonmatch_before_match",
        "stream_match",
        "stream_pre_roll_chunk",
        "stream_roll",
        "reserved_5",
        "reserved_6",
        "stream_eof_chunk",
        "stream_eof_none",
        "stream_byte",
        "buffer_fill_read",
        "buffer_fill_short_read_loop",
        "buffer_roll",
        "find_fwd_byte",
        "find_fwd_prefilter",
        "overlapping_byte",
        "overlapping_prefilter",
        "find_iter_next",
        "find_iter_empty_match",
        "nfa_noncontiguous_failure_transition",
        "nfa_contiguous_failure_transition",
        "packed_find_in",
        "replace_write_nonmatch",
        "replace_call_closure",
        "overlapping_iter_next",
    ]
}

pub fn evidence_texts(prop: &str) -> (String, serde_json::Value, Vec<String>) {
    let components = serde_json::json!({
        "real_code": [
            "aho-corasick builders and automata (noncontiguous NFA, contiguous NFA, DFA) and their next_state loops",
            "util::buffer::Buffer (new/fill/roll) with only its capacity overridden through the guarded hook",
            "automaton::StreamChunkIter / StreamFindIter / try_stream_replace_all(_with)",
            "AhoCorasick::{stream_find_iter,try_stream_find_iter,try_stream_replace_all,try_stream_replace_all_with} and the same methods on the three Automaton types",
            "in-memory reference side: find_iter / try_find_iter / try_replace_all_bytes of the same searcher (prefilters, memchr, Teddy native)",
            "std::io::Write::write_all"
        ],
        "stubs": [
            "SimReader (std::io::Read): read sizes, soft/sticky EOF, errors, buffer scribbling",
            "SimWriter (std::io::Write): accepted sizes, Interrupted noise, Ok(0), errors",
            "scripted replacement closure"
        ]
    });
    let rule = match prop {
        "C07" => "Scenarios are generated from (VERIF_SEED, run index) by the swarm generator (alphabet, pattern family, builder options, API surface, stream with planted occurrences and near misses, roll-buffer spare capacity incl. the shipped capacity, explicit read-size schedule incl. aimed cuts inside planted matches, soft EOFs, scribbling). One evaluation = one execution of stream_find_iter against the simulated reader, judged online against find_iter of the same searcher on the bytes delivered (one scenario in eight consumes the iterator through for_each by value, through nth(0), or additionally through count() and last() in further fault-free passes over the same scripted reads; one in thirty is valid UTF-8 text with patterns that split code points). A case is non-trivial when the in-memory iterator reports at least one match AND the run exercised a buffer roll, a multi-read fill below the minimum, or a read boundary strictly inside a reported match. Distinct = distinct hash of (patterns, stream, capacity, read schedule, options, op).",
        "C08" => "As C07, plus a write-acceptance schedule (all / 1 / 1..3 / half / mixed with Interrupted noise), a replacement table and a closure script. One evaluation = one execution of try_stream_replace_all or try_stream_replace_all_with, judged against try_replace_all_bytes (resp. the splice of find_iter with the script's outputs) of the same searcher on the bytes delivered; closure arguments are compared call by call. Non-trivial and distinct as in C07.",
        _ => "Scenarios are sampled by seed as in C07/C08 (streams up to 160 bytes so that every position can be enumerated, plus a few production-capacity scenarios). Within each scenario a fault-free calibration run records R read calls, W write calls, B output bytes and M closure calls; then one execution per read fault at every call k in [0,R) (the last replaces the EOF read; error kind cycled over 8 kinds; with and without scribbling), per write fault at every call, per Ok(0) at every call, per short-write-then-error after every accepted byte count, per closure failure before/after its write at every match, plus seeded multi-fault read sequences polled on after each error. One evaluation = one faulted execution judged against the calibration run (surfacing, kind, prefix consistency, continuation, EOF honesty, no panic, bounded completion). A case is non-trivial when the fault actually fired while the operation had in-flight state (not after the final EOF read of an empty stream). Distinct = distinct hash of (scenario signature, fault list).",
    };
    let assumptions = vec![
        "The oracle is the library's own in-memory search on the same searcher: a defect shared by both paths is out of scope (it belongs to non-simulation properties).".to_string(),
        "The simulated reader/writer obey the std::io::Read/Write contracts (never report more bytes than offered; a failed read consumes nothing).".to_string(),
        "The roll-buffer capacity hook only changes the capacity (never below longest pattern + 1); a fraction of runs leaves it unset to exercise the shipped formula.".to_string(),
        "Library built with debug assertions and overflow checks on (a debug-only panic counts as a panic).".to_string(),
        "Sampling, not enumeration, over scenarios; within a C18 scenario fault positions are enumerated exhaustively (sampled only above 400 positions).".to_string(),
    ];
    (rule.to_string(), components, assumptions)
}
