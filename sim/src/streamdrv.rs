//! Worker side of the stream checks (C07, C08, C18): generate scenarios for
//! an index range, execute, judge, collect reach probes and evidence.

use crate::rng::{Hasher64, Rng};
use crate::scenario::*;
use crate::streamgen::{gen_big, gen_small, GenInfo};
use crate::streamsim::*;
use crate::sut::{self, Sut};
use aho_corasick::verif::site;
use serde::{Deserialize, Serialize};
use std::collections::{BTreeMap, HashSet};
use std::panic::{catch_unwind, AssertUnwindSafe};

#[derive(Serialize, Deserialize, Clone, Debug)]
pub struct Failure {
    /// first index of the worker job that found it (history window for range replays)
    #[serde(default)]
    pub job_from: u64,
    pub idx: u64,
    pub gen_class: String,
    pub class: String,
    pub detail: String,
    pub scenario: serde_json::Value,
}

#[derive(Serialize, Deserialize, Clone, Debug, Default)]
pub struct WorkerOut {
    pub scenarios: u64,
    pub execs: u64,
    pub invalid: u64,
    pub invalid_samples: Vec<String>,
    pub events: u64,
    pub range_hash: u64,
    pub sites: Vec<u64>,
    pub probes: BTreeMap<String, u64>,
    pub fired: BTreeMap<String, u64>,
    pub failures: Vec<Failure>,
    pub failure_count: u64,
    pub classes: BTreeMap<String, u64>,
    pub nontrivial: Vec<u64>,
    pub signatures: Vec<u64>,
    /// large hash sets travel through binary files (u64 LE) instead of JSON
    #[serde(default)]
    pub nontrivial_file: Option<String>,
    #[serde(default)]
    pub signatures_file: Option<String>,
    pub samples: Vec<serde_json::Value>,
    pub config_counts: BTreeMap<String, u64>,
    pub stream_bytes: u64,
}

pub fn sc_signature(sc: &StreamScenario) -> u64 {
    let mut h = Hasher64::new();
    h.u64(sc.patterns.len() as u64);
    for p in &sc.patterns {
        h.bytes(p);
    }
    h.bytes(&sc.stream);
    h.u64(sc.spare.map(|s| s as u64 + 1).unwrap_or(0));
    let step = |h: &mut Hasher64, s: &ReadStep| match s {
        ReadStep::Bytes(n) => {
            h.u64(1);
            h.u64(*n as u64)
        }
        ReadStep::Fill => h.u64(2),
        ReadStep::Half => h.u64(3),
        ReadStep::AllButOne => h.u64(4),
        ReadStep::Until(n) => {
            h.u64(5);
            h.u64(*n as u64)
        }
        ReadStep::SoftEof => h.u64(6),
    };
    for s in &sc.reads {
        step(&mut h, s);
    }
    step(&mut h, &sc.default_read);
    h.u64(sc.op as u64);
    h.u64(sc.vectored as u64);
    h.u64(sc.opts.surface as u64);
    h.u64(sc.opts.kind as u64);
    h.u64(sc.opts.case_insensitive as u64);
    h.u64(sc.opts.prefilter as u64);
    h.u64(sc.opts.byte_classes as u64);
    h.u64(sc.opts.dense_depth.map(|d| d as u64 + 1).unwrap_or(0));
    h.u64(sc.opts.start_both as u64);
    for w in &sc.writes {
        match w {
            WriteStep::All => h.u64(1),
            WriteStep::Accept(n) => {
                h.u64(2);
                h.u64(*n as u64)
            }
            WriteStep::Half => h.u64(3),
            WriteStep::Interrupted => h.u64(4),
            WriteStep::AllButOne => h.u64(5),
        }
    }
    h.finish()
}

fn fault_sig(f: &Fault) -> u64 {
    let mut h = Hasher64::new();
    let s = format!("{:?}", f);
    h.bytes(s.as_bytes());
    h.finish()
}

pub fn fault_name(f: &Fault) -> &'static str {
    match f {
        Fault::Read { scribble: false, .. } => "read_error",
        Fault::Read { scribble: true, .. } => "read_error_with_scribble",
        Fault::Write { .. } => "write_error",
        Fault::WriteAfterBytes { .. } => "short_write_then_error",
        Fault::WriteZero { .. } => "write_zero",
        Fault::Flush { .. } => "flush_error",
        Fault::Closure { after_write: false, .. } => "closure_error",
        Fault::Closure { after_write: true, .. } => "closure_error_after_write",
        Fault::ReadPanic { .. } => "read_panic",
        Fault::WritePanic { .. } => "write_panic",
        Fault::ClosurePanic { .. } => "closure_panic",
    }
}

pub struct Acc {
    pub out: WorkerOut,
    nontrivial: HashSet<u64>,
    signatures: HashSet<u64>,
    pub want_samples: usize,
}

impl Acc {
    pub fn new(want_samples: usize) -> Acc {
        let mut out = WorkerOut::default();
        out.sites = vec![0; NSITES];
        Acc { out, nontrivial: HashSet::new(), signatures: HashSet::new(), want_samples }
    }
    fn probe(&mut self, name: &str, n: u64) {
        if n > 0 {
            *self.out.probes.entry(name.to_string()).or_insert(0) += n;
        } else {
            self.out.probes.entry(name.to_string()).or_insert(0);
        }
    }
    fn config(&mut self, name: String) {
        *self.out.config_counts.entry(name).or_insert(0) += 1;
    }
    fn absorb_run(&mut self, idx: u64, run: &Run) {
        self.out.execs += 1;
        self.out.events += run.n_events;
        let mut h = Hasher64::new();
        h.u64(idx);
        h.u64(run.hash);
        self.out.range_hash = self.out.range_hash.wrapping_add(h.finish());
        for i in 0..NSITES {
            self.out.sites[i] += run.sites[i];
        }
        for f in &run.fired {
            *self.out.fired.entry(fault_name(f).to_string()).or_insert(0) += 1;
            if let Fault::Read { kind, .. } | Fault::Write { kind, .. } = f {
                *self.out.fired.entry(format!("kind_{:?}", kind)).or_insert(0) += 1;
            }
        }
        if run.probe_write_interrupted > 0 {
            *self.out.fired.entry("write_interrupted_noise".into()).or_insert(0) +=
                run.probe_write_interrupted;
        }
    }
    fn fail(&mut self, idx: u64, gen_class: &str, v: &Violation, sc: &StreamScenario) {
        self.out.failure_count += 1;
        *self.out.classes.entry(v.class.clone()).or_insert(0) += 1;
        if self.out.failures.len() < 4 {
            self.out.failures.push(Failure {
                job_from: 0,
                idx,
                gen_class: gen_class.to_string(),
                class: v.class.clone(),
                detail: v.detail.clone(),
                scenario: serde_json::to_value(sc).unwrap(),
            });
        }
    }
    pub fn finish(mut self) -> WorkerOut {
        self.out.nontrivial = self.nontrivial.into_iter().collect();
        self.out.nontrivial.sort();
        self.out.signatures = self.signatures.into_iter().collect();
        self.out.signatures.sort();
        self.out
    }
}

/// Roll-buffer capacity the scenario asks for (the shipped formula when the hook is unset).
fn capacity_of(sc: &StreamScenario) -> usize {
    let minb = sc.max_pattern_len().max(1);
    match sc.spare {
        Some(s) => minb + s.max(1),
        None => (8 * minb).max(65536),
    }
}

fn boundary_inside(run: &Run, m: &(u32, usize, usize)) -> usize {
    run.boundaries.iter().filter(|&&b| m.1 < b && b < m.2).count()
}

/// Reach probes of a fault-free run.
fn probes_fault_free(acc: &mut Acc, sc: &StreamScenario, info: &GenInfo, run: &Run, nmatches: usize) -> bool {
    let maxlen = sc.max_pattern_len();
    let rolls = run.sites[site::BUF_ROLL as usize];
    let short_fill = run.sites[site::BUF_FILL_SHORT as usize];
    let mut inside = 0u64;
    let mut span3 = 0u64;
    let matches: Vec<(u32, usize, usize)> = match sc.op {
        StreamOp::Find => run.got.iter().map(|x| x.0).collect(),
        _ => run.closure_matches.iter().map(|x| x.0).collect(),
    };
    for m in &matches {
        let k = boundary_inside(run, m);
        if k >= 1 {
            inside += 1;
        }
        if k >= 2 {
            span3 += 1;
        }
    }
    // The same facts inferred at the seams, without the hook points inside the library (a tree
    // under test may have dropped or moved them): lower bounds that every implementation with
    // this buffer capacity must meet. Only trusted when the capacity override is honoured
    // (the first read is offered the free space of an empty buffer, i.e. the capacity).
    let minb = maxlen.max(1);
    let capn = capacity_of(sc);
    let hook_ok = sc.spare.is_none() || capn >= 32768 || run.first_read_offer.is_some_and(|o| o < 65536);
    acc.probe("capacity_hook_honoured", (sc.spare.is_some() && capn < 32768 && hook_ok && run.first_read_offer.is_some()) as u64);
    let rolls_seam: u64 = if hook_ok && run.delivered > capn {
        1 + ((run.delivered - capn - 1) / (capn - minb).max(1)) as u64
    } else {
        0
    };
    // (the matches of a run are known to the harness for the iterator and the closure variant;
    // the chunk iterator underneath is the same for all three operations)
    let not_find = sc.op != StreamOp::Replace;
    let first_start = matches.first().map(|m| m.1).unwrap_or(run.delivered);
    let last_end = matches.last().map(|m| m.2).unwrap_or(0);
    let mut prev_end = 0;
    let mut gap_before_match = false;
    for m in &matches {
        if m.1 > prev_end {
            gap_before_match = true;
        }
        prev_end = m.2;
    }
    acc.probe("roll@seam", rolls_seam);
    acc.probe("run_with_2plus_rolls@seam", (rolls_seam >= 2) as u64);
    acc.probe("multi_read_fill_below_min@seam", (run.boundaries.len() >= 2 && run.boundaries[0] < minb) as u64);
    // more unmatched bytes than the buffer holds precede the first match: flushed before a roll
    acc.probe("pre_roll_chunk@seam", (not_find && hook_ok && first_start > capn) as u64);
    acc.probe("eof_chunk@seam", (not_find && run.delivered > last_end) as u64);
    // the byte just before a match is never flushed early (it lies within the retained tail)
    acc.probe("nonmatch_before_match_chunk@seam", (not_find && gap_before_match) as u64);
    acc.probe("production_capacity_run_with_roll@seam", (sc.spare.is_none() && rolls_seam > 0) as u64);
    acc.probe("roll", rolls);
    acc.probe("run_with_2plus_rolls", (rolls >= 2) as u64);
    acc.probe("multi_read_fill_below_min", short_fill);
    acc.probe("read_boundary_strictly_inside_reported_match", inside);
    acc.probe("match_spanning_3plus_reads", span3);
    acc.probe("read_filled_entire_free_buffer", run.probe_read_filled_buffer);
    acc.probe("eof_with_fewer_than_min_bytes", (sc.stream.len() < maxlen) as u64);
    acc.probe("empty_stream", sc.stream.is_empty() as u64);
    acc.probe("pre_roll_chunk", run.sites[site::STREAM_PRE_ROLL as usize]);
    acc.probe("eof_chunk", run.sites[site::STREAM_EOF_CHUNK as usize]);
    acc.probe("nonmatch_before_match_chunk", run.sites[site::STREAM_NONMATCH_BEFORE_MATCH as usize]);
    acc.probe("match_chunk", run.sites[site::STREAM_MATCH as usize]);
    acc.probe("soft_eof_run", sc.reads.iter().any(|s| matches!(s, ReadStep::SoftEof)) as u64);
    acc.probe("production_capacity_run", sc.spare.is_none() as u64);
    acc.probe("production_capacity_run_with_roll", (sc.spare.is_none() && rolls > 0) as u64);
    acc.probe("capacity_min_plus_1", (sc.spare == Some(1)) as u64);
    if sc.op != StreamOp::Find {
        acc.probe("short_write", run.probe_short_write);
        acc.probe("write_interrupted_noise", run.probe_write_interrupted);
        acc.probe("closure_calls", run.closure_calls as u64);
    }
    // a maximal-length match that begins at the first retained byte after a roll is
    // approximated by: a match of length maxlen with a read boundary inside it
    let maxmatch_cut = matches
        .iter()
        .filter(|m| m.2 - m.1 == maxlen && boundary_inside(run, m) > 0)
        .count() as u64;
    acc.probe("max_length_match_cut_by_read", maxmatch_cut);
    acc.config(format!("class={}", info.class));
    acc.config(format!("surface={:?}", sc.opts.surface));
    if sc.opts.surface == Surface::Top {
        acc.config(format!("kind={:?}", sc.opts.kind));
    }
    acc.config(format!("op={:?}", sc.op));
    acc.config(format!(
        "spare={}",
        match sc.spare {
            None => "shipped".to_string(),
            Some(1) => "1".to_string(),
            Some(s) if s <= 4 => "2..4".to_string(),
            Some(_) => ">4".to_string(),
        }
    ));
    acc.out.stream_bytes += run.delivered as u64;
    nmatches >= 1 && (rolls > 0 || short_fill > 0 || inside > 0)
}

fn sample_json(sc: &StreamScenario, run: &Run, note: &str) -> serde_json::Value {
    let evs: Vec<String> = run.events.iter().take(80).map(|e| format!("{:?}", e)).collect();
    serde_json::json!({
        "note": note,
        "patterns": sc.patterns.iter().map(|p| show(p)).collect::<Vec<_>>(),
        "stream": show(&sc.stream),
        "stream_len": sc.stream.len(),
        "opts": sc.opts,
        "spare": sc.spare,
        "op": sc.op,
        "reads": sc.reads.iter().take(24).map(|r| format!("{:?}", r)).collect::<Vec<_>>(),
        "default_read": format!("{:?}", sc.default_read),
        "faults": sc.faults,
        "history": evs,
    })
}

/// Enumerate every fault position of a calibrated scenario (C18).
pub fn enumerate_faults(sc: &StreamScenario, calib: &Run, rng: &mut Rng, cap_positions: usize) -> Vec<Vec<Fault>> {
    let mut out: Vec<Vec<Fault>> = Vec::new();
    let r = calib.read_calls; // includes the EOF read(s)
    let positions = |n: usize, rng: &mut Rng| -> Vec<usize> {
        if n <= cap_positions {
            (0..n).collect()
        } else {
            // first, last and a seeded sample in between
            let mut v: Vec<usize> = vec![0, 1, n - 2, n - 1];
            while v.len() < cap_positions {
                v.push(rng.below(n));
            }
            v.sort();
            v.dedup();
            v
        }
    };
    // read faults at every call k in [0, R): the last one replaces the EOF read
    for k in positions(r, rng) {
        let kind = ERR_KINDS[(k + sc.stream.len()) % ERR_KINDS.len()];
        out.push(vec![Fault::Read { call: k, kind, scribble: k % 2 == 1 }]);
    }
    if sc.op == StreamOp::Find {
        // seeded multi-fault sequences, polled on after each error
        let n_multi = 6.min(1 + r);
        for _ in 0..n_multi {
            let n = rng.range(2, 4);
            let mut calls: Vec<usize> = Vec::new();
            let mut base = rng.below(r + 1);
            for _ in 0..n {
                calls.push(base);
                base += if rng.chance(1, 2) { 1 } else { rng.range(1, 4) };
            }
            // one directly after a roll when the calibration saw one
            if !calib.reads_after_roll.is_empty() && rng.chance(1, 2) {
                calls.push(*rng.pick(&calib.reads_after_roll));
            }
            calls.sort();
            calls.dedup();
            out.push(
                calls
                    .into_iter()
                    .map(|c| Fault::Read {
                        call: c,
                        kind: *rng.pick(&[ErrKind::Interrupted, ErrKind::WouldBlock, ErrKind::TimedOut, ErrKind::Other]),
                        scribble: rng.chance(1, 2),
                    })
                    .collect(),
            );
        }
    } else {
        let w = calib.write_calls;
        for k in positions(w, rng) {
            let kind = ERR_KINDS[(k + 3) % ERR_KINDS.len()];
            // Interrupted on write is retryable noise, not a fault to surface;
            // it is still injected (must be absorbed).
            out.push(vec![Fault::Write { call: k, kind }]);
            out.push(vec![Fault::WriteZero { call: k }]);
        }
        // the shipped library never flushes; if a tree under test does, its flushes can fail too
        for k in positions(calib.flush_calls, rng) {
            let mut kind = ERR_KINDS[(k + 6) % ERR_KINDS.len()];
            if kind.is_interrupted() {
                kind = ErrKind::BrokenPipe; // (nothing retries a failed flush: no "noise" kind here)
            }
            out.push(vec![Fault::Flush { call: k, kind }]);
        }
        let b = calib.accepted.len();
        for k in positions(b + 1, rng) {
            let mut kind = ERR_KINDS[(k + 5) % ERR_KINDS.len()];
            if kind.is_interrupted() {
                kind = ErrKind::BrokenPipe;
            }
            if k < b {
                out.push(vec![Fault::WriteAfterBytes { after_bytes: k, kind }]);
            }
        }
        if sc.op == StreamOp::ReplaceWith {
            for j in positions(calib.closure_calls, rng) {
                let kind = ERR_KINDS[(j + 1) % ERR_KINDS.len()];
                out.push(vec![Fault::Closure { call: j, kind, after_write: false }]);
                out.push(vec![Fault::Closure { call: j, kind, after_write: true }]);
            }
        }
        // a read fault combined with write noise
        if r > 0 && w > 0 {
            let k = rng.below(r);
            out.push(vec![
                Fault::Write { call: rng.below(w), kind: ErrKind::Interrupted },
                Fault::Read { call: k, kind: ErrKind::ConnectionReset, scribble: false },
            ]);
        }
    }
    out
}

pub struct Job {
    pub prop: String,
    pub seed: u64,
    pub class: String, // small | big
    pub from: u64,
    pub to: u64,
    pub want_samples: usize,
}

pub fn gen_for(prop: &str, class: &str, seed: u64, idx: u64) -> (StreamScenario, GenInfo) {
    if class == "big" {
        gen_big(prop, seed, idx)
    } else {
        gen_small(prop, seed, idx)
    }
}

struct PeriodicChecker {
    expected: Vec<u8>,
    pub pos: u64,
    pub first_bad: Option<u64>,
}

impl std::io::Write for PeriodicChecker {
    fn write(&mut self, buf: &[u8]) -> std::io::Result<usize> {
        let l = self.expected.len() as u64;
        if self.first_bad.is_none() {
            let mut off = (self.pos % l) as usize;
            let mut i = 0;
            while i < buf.len() {
                let n = (buf.len() - i).min(self.expected.len() - off);
                if buf[i..i + n] != self.expected[off..off + n] {
                    let d = buf[i..i + n].iter().zip(&self.expected[off..off + n]).position(|(a, b)| a != b).unwrap_or(0);
                    self.first_bad = Some(self.pos + (i + d) as u64);
                    break;
                }
                i += n;
                off = (off + n) % self.expected.len();
            }
        }
        self.pos += buf.len() as u64;
        Ok(buf.len())
    }
    fn flush(&mut self) -> std::io::Result<()> {
        Ok(())
    }
}

/// C08 counterpart of `huge_run`: stream replacement over a periodic stream
/// beyond 4 GiB, output checked on the fly against the (periodic) in-memory
/// replacement of one block.
pub fn huge_replace_run(seed: u64, idx: u64, reps: u64) -> (Option<Violation>, u64, u64) {
    let mut rng = Rng::for_run(seed, 4243, idx);
    let r = &mut rng;
    let pal = [b'a', b'b', b'c'];
    let mut pats: Vec<Vec<u8>> = Vec::new();
    for _ in 0..r.range(1, 3) {
        let l = r.range(7, 11);
        pats.push((0..l).map(|_| *r.pick(&pal)).collect());
    }
    let l: usize = 1 << 20;
    let mut block: Vec<u8> = (0..l).map(|_| *r.pick(&pal)).collect();
    for _ in 0..200 {
        let p = r.pick(&pats).clone();
        let at = r.below(l - p.len() - 1);
        block[at..at + p.len()].copy_from_slice(&p);
    }
    block[l - 1] = b'\n';
    let table: Vec<Vec<u8>> = pats.iter().enumerate().map(|(i, _)| format!("<{}>", i).into_bytes()).collect();
    let mut opts = BuildOpts::plain();
    opts.kind = *r.pick(&[Kind::Noncontiguous, Kind::Contiguous, Kind::Dfa]);
    opts.prefilter = false;
    let sut = match sut::build(&pats, &opts) {
        Ok(s) => s,
        Err(_) => return (None, 0, 0),
    };
    let expected = match sut.replace_all_bytes(&block, &table) {
        Ok(b) => b,
        Err(_) => return (None, 0, 0),
    };
    let explen = expected.len() as u64;
    let chunk = *r.pick(&[usize::MAX, 65536, 60000, 4096]);
    let total = reps * l as u64;
    let mut rdr = PeriodicReader { block: std::sync::Arc::new(block), pos: 0, total, chunk, calls: 0 };
    let mut wtr = PeriodicChecker { expected, pos: 0, first_bad: None };
    aho_corasick::verif::set_stream_buffer_spare(None);
    let with_closure = r.chance(1, 2);
    let res = catch_unwind(AssertUnwindSafe(|| {
        if with_closure {
            sut.stream_replace_all_with(&mut rdr, &mut wtr, |m, _bytes, w: &mut &mut PeriodicChecker| {
                use std::io::Write;
                w.write_all(&table[m.pattern().as_usize()])
            })
        } else {
            sut.stream_replace_all(&mut rdr, &mut wtr, &table)
        }
    }));
    let _ = aho_corasick::verif::take_point_counts();
    let viol = match res {
        Err(_) => Some(Violation { class: "panic".into(), detail: "panic during huge stream replacement".into() }),
        Ok(Err(e)) => Some(Violation { class: "spurious-error".into(), detail: format!("huge stream replacement failed: {:?}", e.kind()) }),
        Ok(Ok(())) => {
            if let Some(at) = wtr.first_bad {
                Some(Violation { class: "output-mismatch".into(), detail: format!("huge stream replacement ({} x 1 MiB blocks): output differs from the periodic in-memory replacement at output byte {}", reps, at) })
            } else if wtr.pos != explen * reps {
                Some(Violation { class: "output-mismatch".into(), detail: format!("huge stream replacement: {} output bytes, expected {}", wtr.pos, explen * reps) })
            } else {
                None
            }
        }
    };
    (viol, wtr.pos, rdr.pos)
}

pub fn huge_reps(idx: u64) -> u64 {
    // 2^32 and 2^31 are crossed with margin
    [4100u64, 2060, 4200, 4100][(idx % 4) as usize]
}

pub fn run_job(job: &Job, progress: &dyn Fn(u64)) -> WorkerOut {
    silence_panics();
    let mut acc = Acc::new(job.want_samples);
    if job.class == "huge" {
        for idx in job.from..job.to {
            progress(idx);
            let reps = huge_reps(idx);
            let (v, matches, bytes) = if job.prop == "C08" { huge_replace_run(job.seed, idx, reps) } else { huge_run(job.seed, idx, reps) };
            acc.out.scenarios += 1;
            acc.out.execs += 1;
            acc.out.stream_bytes += bytes;
            acc.out.events += matches;
            acc.probe("huge_stream_beyond_4GiB", (bytes > (1u64 << 32)) as u64);
            acc.config("class=huge".to_string());
            if let Some(v) = v {
                acc.out.failure_count += 1;
                *acc.out.classes.entry(v.class.clone()).or_insert(0) += 1;
                acc.out.failures.push(Failure {
                    job_from: 0,
                    idx,
                    gen_class: "huge".into(),
                    class: v.class.clone(),
                    detail: v.detail.clone(),
                    scenario: serde_json::json!({"huge": {"seed": job.seed, "idx": idx, "reps": reps, "replace": job.prop == "C08"}}),
                });
            }
        }
        return acc.finish();
    }
    for idx in job.from..job.to {
        progress(idx);
        let (sc, info) = gen_for(&job.prop, &job.class, job.seed, idx);
        one_scenario(&mut acc, job, idx, &sc, &info);
    }
    acc.finish()
}

fn one_scenario(acc: &mut Acc, job: &Job, idx: u64, sc: &StreamScenario, info: &GenInfo) {
    acc.out.scenarios += 1;
    let built = catch_unwind(AssertUnwindSafe(|| sut::build(&sc.patterns, &sc.opts)));
    let sut: Sut = match built {
        Ok(Ok(s)) => s,
        Ok(Err(e)) => {
            acc.out.invalid += 1;
            if acc.out.invalid_samples.len() < 3 {
                acc.out.invalid_samples.push(format!("idx {}: build failed: {}", idx, e));
            }
            return;
        }
        Err(_) => {
            acc.out.invalid += 1;
            if acc.out.invalid_samples.len() < 3 {
                acc.out.invalid_samples.push(format!("idx {}: build panicked", idx));
            }
            return;
        }
    };
    let rf = match reference(sc, &sut) {
        Ok(r) => r,
        Err(e) => {
            acc.out.invalid += 1;
            if acc.out.invalid_samples.len() < 3 {
                acc.out.invalid_samples.push(format!("idx {}: {}", idx, e));
            }
            return;
        }
    };
    let want_sample = acc.out.samples.len() < acc.want_samples;
    // the scenario's own fault list (C07/C08: occasional transient read errors) is
    // applied in a second run; the first one is always fault-free
    let faulted_sc: Option<StreamScenario> = if sc.faults.is_empty() { None } else { Some(sc.clone()) };
    let base_sc;
    let sc: &StreamScenario = if faulted_sc.is_some() {
        let mut b = sc.clone();
        b.faults.clear();
        base_sc = b;
        &base_sc
    } else {
        sc
    };
    let calib = run_once(sc, &sut, want_sample);
    acc.absorb_run(idx, &calib);
    let sig = sc_signature(sc);
    acc.signatures.insert(sig);
    if let Some(v) = judge_fault_free(sc, &sut, &rf, &calib) {
        acc.fail(idx, info.class, &v, sc);
        return;
    }
    if let Some(fsc) = &faulted_sc {
        if !sc.reads.iter().any(|s| matches!(s, ReadStep::SoftEof)) {
            let run = run_once(fsc, &sut, false);
            acc.absorb_run(idx, &run);
            acc.probe("transient_read_error_polled_on", (run.item_errs.len() >= 1 && run.ended) as u64);
            if let Some(v) = judge_faulted(fsc, &calib, &run, false) {
                acc.fail(idx, info.class, &v, fsc);
                return;
            }
        }
    }
    let nmatches = rf.matches_full.iter().filter(|m| m.2 <= calib.delivered).count();
    let nontrivial = probes_fault_free(acc, sc, info, &calib, nmatches);
    if job.prop != "C18" {
        if nontrivial {
            acc.nontrivial.insert(sig);
            if want_sample {
                acc.out.samples.push(sample_json(sc, &calib, "fault-free run; non-trivial: has matches and a roll / multi-read fill / read boundary inside a match"));
            }
        }
        return;
    }
    if sc.reads.iter().any(|s| matches!(s, ReadStep::SoftEof)) {
        // A soft EOF makes the set of bytes delivered depend on where a fault
        // lands (a fault shifts which fill call sees the Ok(0)), so the
        // calibration run is no reference for faulted runs: such scenarios
        // only contribute their fault-free run (EOF honesty included).
        return;
    }
    // C18: enumerate every fault position of this scenario
    let mut rng = Rng::for_run(job.seed, 1800, idx);
    let cap = if info.class == "big" { 10 } else { 400 };
    let plans = enumerate_faults(sc, &calib, &mut rng, cap);
    let shared_stream = std::sync::Arc::new(sc.stream.clone());
    let mut fsc = sc.clone();
    for faults in plans {
        fsc.faults = faults;
        let want_sample = acc.out.samples.len() < acc.want_samples && !calib.got.is_empty() | !calib.accepted.is_empty();
        let run = run_once_shared(&fsc, &sut, shared_stream.clone(), want_sample);
        acc.absorb_run(idx, &run);
        let v = judge_faulted(&fsc, &calib, &run, false);
        // reach probes for fault placement
        let mut in_flight = false;
        for f in &run.fired {
            match f {
                Fault::Read { call, .. } => {
                    acc.probe("fault_at_first_read", (*call == 0) as u64);
                    acc.probe("fault_right_after_roll", calib.reads_after_roll.contains(call) as u64);
                    {
                        // seam-level: at least a buffer's worth had been delivered before this read
                        let before = if *call == 0 { 0 } else { calib.boundaries.get(call - 1).cloned().unwrap_or(calib.delivered) };
                        let hook_ok = sc.spare.is_none() || calib.first_read_offer.is_some_and(|o| o < 65536);
                        acc.probe("fault_right_after_roll@seam", (hook_ok && before >= capacity_of(sc)) as u64);
                    }
                    acc.probe("fault_in_place_of_eof_read", (*call + 1 >= calib.read_calls) as u64);
                    // delivered bytes at that call in the calibration run
                    let delivered = if *call == 0 { 0 } else { calib.boundaries.get(call - 1).cloned().unwrap_or(calib.delivered) };
                    let pending = rf.matches_full.iter().any(|m| m.1 < delivered && delivered < m.2);
                    acc.probe("fault_while_partial_match_buffered", pending as u64);
                    if *call < calib.read_calls && !sc.stream.is_empty() {
                        in_flight = true;
                    }
                }
                Fault::Write { .. } | Fault::WriteZero { .. } | Fault::WriteAfterBytes { .. } | Fault::Flush { .. } => {
                    in_flight = true;
                }
                Fault::Closure { .. } => {
                    in_flight = true;
                }
                _ => {}
            }
        }
        acc.probe("write_fault_inside_closure", run.probe_write_fault_in_closure);
        acc.probe("write_fault_inside_nonmatch_chunk", run.probe_write_fault_in_nonmatch);
        acc.probe("multi_fault_sequence", (run.fired.len() >= 2) as u64);
        acc.probe("polled_on_after_error", (run.item_errs.len() >= 1 && run.ended) as u64);
        acc.probe("eintr_retried_by_library", run.retried_interrupted as u64);
        if let Some(v) = v {
            acc.fail(idx, info.class, &v, &fsc);
            return;
        }
        if in_flight && !run.fired.is_empty() {
            let mut h = Hasher64::new();
            h.u64(sig);
            for f in &fsc.faults {
                h.u64(fault_sig(f));
            }
            acc.nontrivial.insert(h.finish());
            if want_sample && acc.out.samples.len() < acc.want_samples {
                acc.out.samples.push(sample_json(&fsc, &run, "faulted run; non-trivial: the fault fired while the operation had in-flight state"));
            }
        }
    }
}

// ------------------------------------------------------------------ huge streams (absolute offsets beyond 2^32)

struct PeriodicReader {
    block: std::sync::Arc<Vec<u8>>,
    pos: u64,
    total: u64,
    chunk: usize,
    pub calls: u64,
}

impl std::io::Read for PeriodicReader {
    fn read(&mut self, buf: &mut [u8]) -> std::io::Result<usize> {
        self.calls += 1;
        if self.calls % 2048 == 0 {
            crate::parent::tick();
        }
        if self.pos >= self.total || buf.is_empty() {
            return Ok(0);
        }
        let l = self.block.len() as u64;
        let off = (self.pos % l) as usize;
        let n = buf
            .len()
            .min(self.chunk)
            .min(self.block.len() - off)
            .min((self.total - self.pos) as usize);
        buf[..n].copy_from_slice(&self.block[off..off + n]);
        self.pos += n as u64;
        Ok(n)
    }
}

/// One run over a periodic stream of `reps` x 1 MiB blocks (shipped buffer
/// capacity). Blocks end in a separator byte that occurs in no pattern, so
/// the matches of the concatenation are the matches of one block shifted by
/// multiples of the block length: the expected sequence needs no 4 GiB
/// haystack. Catches truncation of absolute offsets (u32 / i32 / usize casts).
pub fn huge_run(seed: u64, idx: u64, reps: u64) -> (Option<Violation>, u64, u64) {
    let mut rng = Rng::for_run(seed, 4242, idx);
    let r = &mut rng;
    let pal = [b'a', b'b', b'c'];
    let mut pats: Vec<Vec<u8>> = Vec::new();
    for _ in 0..r.range(1, 3) {
        let l = r.range(7, 11);
        pats.push((0..l).map(|_| *r.pick(&pal)).collect());
    }
    let l: usize = 1 << 20;
    let mut block: Vec<u8> = (0..l).map(|_| *r.pick(&pal)).collect();
    for _ in 0..200 {
        let p = r.pick(&pats).clone();
        let at = r.below(l - p.len() - 1);
        block[at..at + p.len()].copy_from_slice(&p);
    }
    block[l - 1] = b'\n';
    let mut opts = BuildOpts::plain();
    opts.kind = *r.pick(&[Kind::Noncontiguous, Kind::Contiguous, Kind::Dfa]);
    opts.prefilter = false;
    let sut = match sut::build(&pats, &opts) {
        Ok(s) => s,
        Err(_) => return (None, 0, 0),
    };
    let base = match sut.find_all(&block) {
        Ok(b) => b,
        Err(_) => return (None, 0, 0),
    };
    if base.is_empty() {
        return (None, 0, 0);
    }
    let chunk = *r.pick(&[usize::MAX, 65536, 60000, 4096]);
    let total = reps * l as u64;
    let mut rdr = PeriodicReader { block: std::sync::Arc::new(block), pos: 0, total, chunk, calls: 0 };
    let n = base.len() as u64;
    let mut i: u64 = 0;
    let mut viol: Option<Violation> = None;
    aho_corasick::verif::set_stream_buffer_spare(None);
    let res = catch_unwind(AssertUnwindSafe(|| {
        sut.stream_find(&mut rdr, false, |item| match item {
            None => false,
            Some(Err(e)) => {
                viol = Some(Violation { class: "spurious-error".into(), detail: format!("huge stream: unexpected error {:?}", e.kind()) });
                false
            }
            Some(Ok(m)) => {
                let b = base[(i % n) as usize];
                let shift = (i / n) * l as u64;
                let want = (b.0, b.1 as u64 + shift, b.2 as u64 + shift);
                let got = (m.pattern().as_u32(), m.start() as u64, m.end() as u64);
                if got != want {
                    viol = Some(Violation {
                        class: "match-seq-mismatch".into(),
                        detail: format!("huge stream ({} x 1 MiB periodic blocks): match #{} is {:?}, expected {:?}", reps, i, got, want),
                    });
                    return false;
                }
                i += 1;
                true
            }
        })
    }));
    let _ = aho_corasick::verif::take_point_counts();
    if let Err(_) = res {
        return (Some(Violation { class: "panic".into(), detail: "panic during huge stream search".into() }), i, rdr.pos);
    }
    if viol.is_none() && i != n * reps {
        viol = Some(Violation {
            class: "match-seq-mismatch".into(),
            detail: format!("huge stream: {} matches yielded, expected {} ({} bytes delivered of {})", i, n * reps, rdr.pos, total),
        });
    }
    (viol, i, rdr.pos)
}
