//! Baton scheduler: real OS threads, exactly one of which runs at any time.
//! All choices are made under the scheduler lock by the baton holder, from
//! the run's own PRNG streams or from an explicit decision list (replay).

use crate::rng::{Hasher64, Rng};
use crate::tscen::Policy;
use std::cell::RefCell;
use std::collections::BTreeSet;
use std::sync::atomic::{AtomicU32, AtomicU64, Ordering};
use std::sync::{Arc, Condvar, Mutex};

#[derive(Clone, Copy, Debug, PartialEq, Eq)]
pub enum St {
    Runnable,
    Blocked,
    Stalled,
    Finished,
}

pub struct SState {
    pub current: usize,
    pub status: Vec<St>,
    pub policy: Policy,
    rng_points: Rng,
    rng_choice: Rng,
    countdown: u64,
    density: u64,
    prio: Vec<u32>,
    change_points: Vec<u64>,
    pub points: u64,
    pub thread_points: Vec<u64>,
    stall: Option<(usize, u64)>,
    pub stall_fired: bool,
    decisions_in: Option<Vec<u32>>,
    din_pos: usize,
    pub decisions_out: Vec<u32>,
    pub trace: Hasher64,
    pub switches: u64,
    pub switches_in_lib: u64,
    pub switch_sites: BTreeSet<u32>,
    pub pairs: BTreeSet<(u32, u32)>,
    last_site: Vec<u32>,
    pub deadlock: bool,
    next_prio_low: u32,
}

pub struct Sched {
    mu: Mutex<SState>,
    cv: Condvar,
    // Hot-path state. Only the baton holder ever touches it, so plain relaxed
    // atomics are enough; they only exist to avoid taking the lock at every
    // yield point.
    points: AtomicU64,
    countdown: AtomicU64,
    next_cp: AtomicU64,
    thread_points: Vec<AtomicU64>,
    last_site: Vec<AtomicU32>,
    stall_tid: usize,
    stall_at: u64,
    is_random: bool,
}

pub const NO_THREAD: usize = usize::MAX;

impl Sched {
    #[allow(clippy::too_many_arguments)]
    pub fn new(
        n: usize,
        policy: Policy,
        seed: u64,
        density: u64,
        change_points: Vec<u64>,
        stall: Option<(usize, u64)>,
        decisions_in: Option<Vec<u32>>,
    ) -> Arc<Sched> {
        let mut rng_prio = Rng::for_run(seed, 3, 0);
        // PCT: random distinct priorities (higher runs first)
        let mut prio: Vec<u32> = (0..n as u32).map(|i| 1000 + i).collect();
        for i in (1..n).rev() {
            let j = rng_prio.below(i + 1);
            prio.swap(i, j);
        }
        let mut rng_points = Rng::for_run(seed, 1, 0);
        let density = density.max(1);
        let countdown = 1 + rng_points.below((2 * density) as usize) as u64;
        let mut cps = change_points.clone();
        cps.sort();
        let first_cp = cps.first().cloned().unwrap_or(u64::MAX);
        Arc::new(Sched {
            mu: Mutex::new(SState {
                current: NO_THREAD,
                status: vec![St::Runnable; n],
                policy,
                rng_points,
                rng_choice: Rng::for_run(seed, 2, 0),
                countdown: 0,
                density,
                prio,
                change_points: cps,
                points: 0,
                thread_points: vec![0; n],
                stall,
                stall_fired: false,
                decisions_in,
                din_pos: 0,
                decisions_out: Vec::new(),
                trace: Hasher64::new(),
                switches: 0,
                switches_in_lib: 0,
                switch_sites: BTreeSet::new(),
                pairs: BTreeSet::new(),
                last_site: vec![u32::MAX; n],
                deadlock: false,
                next_prio_low: 999,
            }),
            cv: Condvar::new(),
            points: AtomicU64::new(0),
            countdown: AtomicU64::new(countdown),
            next_cp: AtomicU64::new(first_cp),
            thread_points: (0..n).map(|_| AtomicU64::new(0)).collect(),
            last_site: (0..n).map(|_| AtomicU32::new(u32::MAX)).collect(),
            stall_tid: stall.map(|s| s.0).unwrap_or(usize::MAX),
            stall_at: stall.map(|s| s.1).unwrap_or(u64::MAX),
            is_random: policy == Policy::Random,
        })
    }

    pub fn snapshot<T>(&self, f: impl FnOnce(&SState) -> T) -> T {
        let mut st = self.mu.lock().unwrap();
        st.points = self.points.load(Ordering::Relaxed);
        for i in 0..self.thread_points.len() {
            st.thread_points[i] = self.thread_points[i].load(Ordering::Relaxed);
        }
        f(&st)
    }

    fn runnable(st: &SState) -> Vec<usize> {
        (0..st.status.len()).filter(|&i| st.status[i] == St::Runnable).collect()
    }

    /// Choose the next thread to run among the runnable ones (records the choice).
    fn choose(st: &mut SState, prefer: usize) -> Option<usize> {
        let mut cands = Self::runnable(st);
        if cands.is_empty() {
            // nobody can run: release stalled threads
            let mut any = false;
            for s in st.status.iter_mut() {
                if *s == St::Stalled {
                    *s = St::Runnable;
                    any = true;
                }
            }
            if any {
                cands = Self::runnable(st);
            }
        }
        if cands.is_empty() {
            return None;
        }
        let fallback = if cands.contains(&prefer) { prefer } else { cands[0] };
        let next = if let Some(list) = &st.decisions_in {
            let pick = list.get(st.din_pos).map(|&x| x as usize);
            st.din_pos += 1;
            match pick {
                Some(p) if cands.contains(&p) => p,
                _ => fallback,
            }
        } else {
            match st.policy {
                Policy::Random => cands[st.rng_choice.below(cands.len())],
                Policy::Pct => *cands.iter().max_by_key(|&&t| st.prio[t]).unwrap(),
            }
        };
        st.decisions_out.push(next as u32);
        Some(next)
    }

    fn switch_to<'a>(
        &'a self,
        mut st: std::sync::MutexGuard<'a, SState>,
        me: usize,
        next: usize,
        site: u32,
    ) -> std::sync::MutexGuard<'a, SState> {
        if next == me {
            return st;
        }
        st.trace.u64(me as u64);
        st.trace.u64(site as u64);
        st.trace.u64(next as u64);
        st.switches += 1;
        if site < 100 {
            st.switches_in_lib += 1;
        }
        st.switch_sites.insert(site);
        let to_site = self.last_site[next].load(Ordering::Relaxed);
        st.pairs.insert((site, to_site));
        st.current = next;
        self.cv.notify_all();
        while st.current != me {
            st = self.cv.wait(st).unwrap();
        }
        st
    }

    /// Wait for the first turn.
    pub fn wait_turn(&self, me: usize) {
        let mut st = self.mu.lock().unwrap();
        while st.current != me {
            st = self.cv.wait(st).unwrap();
        }
    }

    /// Main thread: hand the baton to the first thread.
    pub fn start(&self) {
        let mut st = self.mu.lock().unwrap();
        if let Some(first) = Self::choose(&mut st, 0) {
            st.current = first;
        }
        self.cv.notify_all();
    }

    /// A yield point reached by the baton holder.
    #[inline]
    pub fn point(&self, me: usize, site: u32) {
        // fast path: no lock unless this point is a decision point
        let p = self.points.fetch_add(1, Ordering::Relaxed) + 1;
        let tp = self.thread_points[me].fetch_add(1, Ordering::Relaxed) + 1;
        self.last_site[me].store(site, Ordering::Relaxed);
        let stall_now = me == self.stall_tid && tp == self.stall_at;
        let decide = if self.is_random {
            self.countdown.fetch_sub(1, Ordering::Relaxed) <= 1
        } else {
            self.next_cp.load(Ordering::Relaxed) == p
        };
        if !stall_now && !decide {
            return;
        }
        self.point_slow(me, site, p, stall_now, decide);
    }

    #[inline(never)]
    fn point_slow(&self, me: usize, site: u32, p: u64, stall_now: bool, decide: bool) {
        let mut st = self.mu.lock().unwrap();
        if st.current != me {
            // not under the baton (should not happen); never block here
            return;
        }
        if decide {
            if self.is_random {
                let d = (2 * st.density) as usize;
                let c = 1 + st.rng_points.below(d) as u64;
                self.countdown.store(c, Ordering::Relaxed);
            } else {
                let next = st.change_points.iter().cloned().find(|&c| c > p).unwrap_or(u64::MAX);
                self.next_cp.store(next, Ordering::Relaxed);
                st.prio[me] = st.next_prio_low;
                st.next_prio_low = st.next_prio_low.saturating_sub(1);
            }
        }
        if stall_now && !st.stall_fired {
            let others = (0..st.status.len()).any(|i| i != me && st.status[i] == St::Runnable);
            if others {
                st.stall_fired = true;
                st.status[me] = St::Stalled;
                if let Some(next) = Self::choose(&mut st, me) {
                    let _st = self.switch_to(st, me, next, site);
                    return;
                }
                st.status[me] = St::Runnable;
            }
        }
        if !decide {
            return;
        }
        if let Some(next) = Self::choose(&mut st, me) {
            let _st = self.switch_to(st, me, next, site);
        }
    }

    /// The calling thread has finished its script.
    pub fn finish(&self, me: usize) {
        let mut st = self.mu.lock().unwrap();
        st.status[me] = St::Finished;
        match Self::choose(&mut st, me) {
            Some(next) => {
                st.trace.u64(me as u64);
                st.trace.u64(0xF1);
                st.trace.u64(next as u64);
                st.current = next;
            }
            None => {
                if st.status.iter().any(|s| *s == St::Blocked) {
                    st.deadlock = true;
                    for s in st.status.iter_mut() {
                        if *s == St::Blocked {
                            *s = St::Runnable;
                        }
                    }
                    if let Some(next) = Self::choose(&mut st, me) {
                        st.current = next;
                    }
                } else {
                    st.current = NO_THREAD;
                }
            }
        }
        self.cv.notify_all();
    }

    /// Block the caller until `ready()` holds; other threads run meanwhile.
    /// Returns false if nobody is left who could make it true.
    pub fn block_until(&self, me: usize, site: u32, mut ready: impl FnMut() -> bool) -> bool {
        loop {
            if ready() {
                return true;
            }
            let mut st = self.mu.lock().unwrap();
            if st.deadlock {
                return false;
            }
            st.status[me] = St::Blocked;
            match Self::choose(&mut st, me) {
                Some(next) => {
                    let mut st = self.switch_to(st, me, next, site);
                    if st.status[me] == St::Blocked {
                        st.status[me] = St::Runnable;
                    }
                }
                None => {
                    st.status[me] = St::Runnable;
                    st.deadlock = true;
                    return false;
                }
            }
        }
    }

    /// Something a blocked thread may be waiting for has happened.
    pub fn unblock_all(&self) {
        let mut st = self.mu.lock().unwrap();
        for s in st.status.iter_mut() {
            if *s == St::Blocked {
                *s = St::Runnable;
            }
        }
    }
}

thread_local! {
    static CTX: RefCell<Option<(Arc<Sched>, usize)>> = const { RefCell::new(None) };
}

pub fn install(s: Arc<Sched>, tid: usize) {
    CTX.with(|c| *c.borrow_mut() = Some((s, tid)));
}

pub fn uninstall() {
    CTX.with(|c| *c.borrow_mut() = None);
}

pub fn current() -> Option<(Arc<Sched>, usize)> {
    CTX.with(|c| c.borrow().clone())
}

#[inline]
pub fn yield_point(site: u32) {
    CTX.with(|c| {
        if let Some((s, tid)) = &*c.borrow() {
            s.point(*tid, site);
        }
    });
}
