//! Minimiser for thread scenarios: drop threads, drop operations, unwrap
//! clones, remove faults, and flatten the schedule (delta debugging over
//! context switches) while the same violation class reproduces.

use crate::threadsim::exec;
use crate::tscen::*;

struct Min {
    target: String,
    budget: usize,
    used: usize,
    /// wall-clock bound: a giant scenario (megabyte patterns) can take seconds per
    /// re-execution; past the deadline the best scenario so far is reported
    deadline: std::time::Instant,
}

impl Min {
    /// Runs the candidate; on success returns it with the schedule it actually took.
    fn fails(&mut self, sc: &ThreadScenario) -> Option<ThreadScenario> {
        if self.used >= self.budget || std::time::Instant::now() > self.deadline || sc.threads.is_empty() {
            return None;
        }
        self.used += 1;
        let v = exec(sc);
        match (&v.violation, &v.conc) {
            (Some(x), Some(c)) if x.class == self.target => {
                let mut out = sc.clone();
                out.decisions = Some(c.decisions.clone());
                Some(out)
            }
            _ => None,
        }
    }
    fn try_apply(&mut self, cur: &mut ThreadScenario, cand: ThreadScenario) -> bool {
        if cand == *cur {
            return false;
        }
        if let Some(ok) = self.fails(&cand) {
            *cur = ok;
            true
        } else {
            false
        }
    }
}

fn src_searches_mut<'a>(src: &'a mut IterSrc, out: &mut Vec<&'a mut usize>, hays: &mut Vec<&'a mut Hay>) {
    match src {
        IterSrc::Mem { q, .. } => {
            out.push(&mut q.s);
            hays.push(&mut q.hay);
        }
        IterSrc::Stream(p) => out.push(&mut p.s),
    }
}

/// Mutable access to every searcher index and haystack reference of an operation.
pub fn op_refs_mut<'a>(op: &'a mut Op, out: &mut Vec<&'a mut usize>, hays: &mut Vec<&'a mut Hay>) {
    match op {
        Op::Find(q) | Op::FindInfallible(q) | Op::IsMatch(q) => {
            out.push(&mut q.s);
            hays.push(&mut q.hay);
        }
        Op::Iter { q, .. } | Op::ReplaceAll { q, .. } | Op::ReplaceAllWith { q, .. } => {
            out.push(&mut q.s);
            hays.push(&mut q.hay);
        }
        Op::Stream(p) => out.push(&mut p.s),
        Op::Interleave2 { a, b } => {
            src_searches_mut(a, out, hays);
            src_searches_mut(b, out, hays);
        }
        Op::WithClone(inner) | Op::OrphanClone(inner) => op_refs_mut(inner, out, hays),
        Op::StartIter { src, .. } => src_searches_mut(src, out, hays),
        Op::ResumeIter { .. } => {}
    }
}

fn remove_searcher(sc: &ThreadScenario, k: usize) -> Option<ThreadScenario> {
    let mut c = sc.clone();
    for t in c.threads.iter_mut() {
        for op in t.iter_mut() {
            let mut ss = Vec::new();
            let mut hs = Vec::new();
            op_refs_mut(op, &mut ss, &mut hs);
            for s in ss {
                if *s == k {
                    return None; // still used
                }
                if *s > k {
                    *s -= 1;
                }
            }
        }
    }
    c.searchers.remove(k);
    Some(c)
}

pub fn minimise(sc: &ThreadScenario, target: &str, budget: usize) -> (ThreadScenario, usize) {
    let mut min = Min { target: target.to_string(), budget, used: 0, deadline: std::time::Instant::now() + std::time::Duration::from_secs(std::env::var("VERIF_MIN_SECS").ok().and_then(|s| s.parse().ok()).unwrap_or(60)) };
    let mut cur = match min.fails(sc) {
        Some(c) => c,
        None => return (sc.clone(), min.used),
    };
    loop {
        let mut progress = false;
        // drop whole threads
        let mut t = 0;
        while cur.threads.len() > 1 && t < cur.threads.len() {
            let mut cand = cur.clone();
            cand.threads.remove(t);
            cand.decisions = cand.decisions.map(|d| {
                d.into_iter()
                    .filter(|&x| x as usize != t)
                    .map(|x| if x as usize > t { x - 1 } else { x })
                    .collect()
            });
            if let Some((st, _)) = cand.stall {
                if st == t {
                    cand.stall = None;
                } else if st > t {
                    cand.stall = cand.stall.map(|(a, b)| (a - 1, b));
                }
            }
            if min.try_apply(&mut cur, cand) {
                progress = true;
            } else {
                t += 1;
            }
        }
        // drop operations (largest chunks first)
        for t in 0..cur.threads.len() {
            let mut chunk = cur.threads[t].len().max(1);
            loop {
                let mut i = 0;
                while i < cur.threads[t].len() {
                    let to = (i + chunk).min(cur.threads[t].len());
                    let mut cand = cur.clone();
                    cand.threads[t].drain(i..to);
                    if min.try_apply(&mut cur, cand) {
                        progress = true;
                    } else {
                        i += chunk;
                    }
                }
                if chunk == 1 {
                    break;
                }
                chunk /= 2;
            }
        }
        // simplify operations
        for t in 0..cur.threads.len() {
            for i in 0..cur.threads[t].len() {
                let op = cur.threads[t][i].clone();
                let simpler: Vec<Op> = match &op {
                    Op::WithClone(inner) => vec![(**inner).clone()],
                    Op::OrphanClone(inner) => vec![Op::WithClone(inner.clone()), (**inner).clone()],
                    Op::Stream(p) => {
                        let mut v = Vec::new();
                        if !p.sc.faults.is_empty() {
                            let mut q = p.clone();
                            q.sc.faults.clear();
                            v.push(Op::Stream(q));
                        }
                        if p.nested_at_read.is_some() {
                            let mut q = p.clone();
                            q.nested_at_read = None;
                            v.push(Op::Stream(q));
                        }
                        if p.cancel_after.is_some() {
                            let mut q = p.clone();
                            q.cancel_after = None;
                            v.push(Op::Stream(q));
                        }
                        if !p.sc.reads.is_empty() {
                            let mut q = p.clone();
                            q.sc.reads.clear();
                            v.push(Op::Stream(q));
                        }
                        v
                    }
                    Op::Iter { kind, q, limit: Some(_) } => vec![Op::Iter { kind: *kind, q: q.clone(), limit: None }],
                    Op::ReplaceAllWith { q, table, stop_after, nested, panic_at } if stop_after.is_some() || nested.is_some() || panic_at.is_some() => {
                        vec![
                            Op::ReplaceAllWith { q: q.clone(), table: table.clone(), stop_after: None, nested: None, panic_at: *panic_at },
                            Op::ReplaceAllWith { q: q.clone(), table: table.clone(), stop_after: None, nested: None, panic_at: None },
                        ]
                    }
                    Op::Find(q) | Op::IsMatch(q) | Op::FindInfallible(q) if q.span.is_some() || q.anchored || q.earliest => {
                        let mut q2 = q.clone();
                        q2.span = None;
                        q2.anchored = false;
                        q2.earliest = false;
                        vec![Op::Find(q2)]
                    }
                    _ => vec![],
                };
                for s in simpler {
                    let mut cand = cur.clone();
                    cand.threads[t][i] = s;
                    if min.try_apply(&mut cur, cand) {
                        progress = true;
                        break;
                    }
                }
            }
        }
        // stall fault
        if cur.stall.is_some() {
            let mut cand = cur.clone();
            cand.stall = None;
            progress |= min.try_apply(&mut cur, cand);
        }
        // flatten the schedule: replace a decision by the preceding one
        if let Some(d) = cur.decisions.clone() {
            let mut i = 1;
            while i < d.len().min(400) && min.used < min.budget {
                let dn = cur.decisions.clone().unwrap_or_default();
                if i < dn.len() && dn[i] != dn[i - 1] {
                    let mut cand = cur.clone();
                    let mut nd = dn.clone();
                    nd[i] = nd[i - 1];
                    cand.decisions = Some(nd);
                    if min.try_apply(&mut cur, cand) {
                        progress = true;
                    }
                }
                i += 1;
            }
        }
        // unused searchers (indices are remapped)
        let mut k = 0;
        while cur.searchers.len() > 1 && k < cur.searchers.len() {
            match remove_searcher(&cur, k) {
                Some(cand) => {
                    if min.try_apply(&mut cur, cand) {
                        progress = true;
                    } else {
                        k += 1;
                    }
                }
                None => k += 1,
            }
        }
        // patterns
        for si in 0..cur.searchers.len() {
            let mut pi = 0;
            while cur.searchers[si].patterns.len() > 1 && pi < cur.searchers[si].patterns.len() {
                let mut cand = cur.clone();
                cand.searchers[si].patterns.remove(pi);
                if min.try_apply(&mut cur, cand) {
                    progress = true;
                } else {
                    pi += 1;
                }
            }
        }
        // haystacks: halve per-thread buffer fills and scenario-owned haystacks
        for t in 0..cur.threads.len() {
            for i in 0..cur.threads[t].len() {
                loop {
                    let mut cand = cur.clone();
                    let mut changed = false;
                    {
                        let mut ss = Vec::new();
                        let mut hs = Vec::new();
                        op_refs_mut(&mut cand.threads[t][i], &mut ss, &mut hs);
                        for h in hs {
                            if let Hay::Buf { fill, .. } = h {
                                if fill.len() > 4 {
                                    let n = fill.len() / 2;
                                    fill.truncate(n);
                                    changed = true;
                                }
                            }
                        }
                    }
                    if !changed || !min.try_apply(&mut cur, cand) {
                        break;
                    }
                    progress = true;
                }
            }
        }
        for h in 0..cur.fixed_hays.len() {
            loop {
                if cur.fixed_hays[h].len() <= 4 {
                    break;
                }
                let mut cand = cur.clone();
                let n = cand.fixed_hays[h].len() / 2;
                cand.fixed_hays[h].truncate(n);
                if !min.try_apply(&mut cur, cand) {
                    break;
                }
                progress = true;
            }
        }
        if !progress || min.used >= min.budget {
            break;
        }
    }
    cur.origin = format!("minimised from [{}] with {} re-executions", sc.origin, min.used);
    (cur, min.used)
}
