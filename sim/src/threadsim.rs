//! threadsim (C17): several simulated clients — real OS threads under the
//! baton scheduler — share real searchers; every operation's outcome is
//! compared with the same operation executed alone on a freshly built
//! private searcher.

use crate::parent::{ClassPlan, JobSpec, ReplayFile};
use crate::rng::Hasher64;
use crate::streamdrv::{Failure, WorkerOut};
use crate::streamsim::{silence_panics, NSITES};
use crate::texec::*;
use crate::tgen::gen_thread;
use crate::tsched::{self, Sched};
use crate::tscen::*;
use crate::tsut::{build_tsut, TSut};
use aho_corasick::verif;
use std::collections::{BTreeMap, HashSet};
use std::sync::Mutex;

pub use crate::tsched::yield_point;

fn lib_hook(site: u32) {
    tsched::yield_point(site);
}

pub struct ConcRun {
    pub results: Vec<Vec<Vec<R>>>,
    pub decisions: Vec<u32>,
    pub trace: u64,
    pub switches: u64,
    pub switches_in_lib: u64,
    pub switch_sites: Vec<u32>,
    pub pairs: usize,
    pub points: u64,
    pub stall_fired: bool,
    pub deadlock: bool,
    pub counters: Counters,
    pub sites: [u64; NSITES],
    pub thread_died: Option<String>,
}

pub fn build_all(sc: &ThreadScenario) -> Result<Vec<Option<TSut>>, String> {
    sc.searchers.iter().map(|s| build_tsut(s).map(Some)).collect()
}

/// The concurrent phase under the baton scheduler.
pub fn run_conc(sc: &ThreadScenario, suts: &[Option<TSut>]) -> ConcRun {
    let n = sc.threads.len();
    let sched = Sched::new(n, sc.policy, sc.sched_seed, sc.density, sc.change_points.clone(), sc.stall, sc.decisions.clone());
    let slots: Mutex<Vec<Option<InFlight>>> = Mutex::new((0..sc.slots).map(|_| None).collect());
    let counters = Mutex::new(Counters::default());
    let results: Mutex<Vec<Vec<Vec<R>>>> = Mutex::new(vec![Vec::new(); n]);
    let sites: Mutex<[u64; NSITES]> = Mutex::new([0; NSITES]);
    let died: Mutex<Option<String>> = Mutex::new(None);
    {
        let env = Env { specs: &sc.searchers, suts, fixed: &sc.fixed_hays, slots: &slots, counters: &counters };
        std::thread::scope(|scope| {
            for tid in 0..n {
                let sched = sched.clone();
                let env = &env;
                let results = &results;
                let sites = &sites;
                let died = &died;
                let ops = &sc.threads[tid];
                scope.spawn(move || {
                    tsched::install(sched.clone(), tid);
                    verif::set_point_hook(Some(lib_hook));
                    let _ = verif::take_point_counts();
                    sched.wait_turn(tid);
                    let r = std::panic::catch_unwind(std::panic::AssertUnwindSafe(|| {
                        let mut bufs: Vec<Vec<u8>> = vec![Vec::with_capacity(1024), Vec::with_capacity(1024)];
                        let mut res = Vec::with_capacity(ops.len());
                        for op in ops.iter() {
                            sched.point(tid, crate::sched::SEAM_OP);
                            res.push(exec_op(env, None, &mut bufs, op, tid));
                        }
                        res
                    }));
                    verif::set_point_hook(None);
                    match r {
                        Ok(res) => results.lock().unwrap()[tid] = res,
                        Err(p) => *died.lock().unwrap() = Some(panic_text(p)),
                    }
                    let c = verif::take_point_counts();
                    {
                        let mut s = sites.lock().unwrap();
                        for i in 0..NSITES {
                            s[i] += c[i];
                        }
                    }
                    sched.finish(tid);
                    tsched::uninstall();
                });
            }
            sched.start();
        });
    }
    // parked iterators borrow the searchers; drop them before returning
    slots.lock().unwrap().clear();
    let (decisions, trace, switches, switches_in_lib, switch_sites, pairs, points, stall_fired, deadlock) = sched.snapshot(|st| {
        (
            st.decisions_out.clone(),
            st.trace.finish(),
            st.switches,
            st.switches_in_lib,
            st.switch_sites.iter().cloned().collect::<Vec<u32>>(),
            st.pairs.len(),
            st.points,
            st.stall_fired,
            st.deadlock,
        )
    });
    let sites_v = *sites.lock().unwrap();
    let counters_v = counters.lock().unwrap().clone();
    let thread_died = died.lock().unwrap().clone();
    let results_v = std::mem::take(&mut *results.lock().unwrap());
    ConcRun {
        results: results_v,
        decisions,
        trace,
        switches,
        switches_in_lib,
        switch_sites,
        pairs,
        points,
        stall_fired,
        deadlock,
        counters: counters_v,
        sites: sites_v,
        thread_died,
    }
}

/// Single-copy reference: every operation alone on freshly built private
/// searchers, no scheduler installed. Handoff pairs are executed back to
/// back on one fresh searcher.
pub fn reference(sc: &ThreadScenario) -> Result<Vec<Vec<Vec<R>>>, String> {
    reference_with(sc, true)
}

/// `fresh_per_op = false` builds the private searchers once per scenario
/// (used under Miri, where construction dominates the cost).
pub fn reference_with(sc: &ThreadScenario, fresh_per_op: bool) -> Result<Vec<Vec<Vec<R>>>, String> {
    let shared: Vec<Option<TSut>> = if fresh_per_op { Vec::new() } else { build_all(sc)? };
    let mut out: Vec<Vec<Vec<R>>> = sc.threads.iter().map(|t| vec![Vec::new(); t.len()]).collect();
    // locate handoff pairs
    let mut starts: BTreeMap<usize, (usize, usize)> = BTreeMap::new();
    let mut resumes: BTreeMap<usize, (usize, usize)> = BTreeMap::new();
    for (t, ops) in sc.threads.iter().enumerate() {
        for (i, op) in ops.iter().enumerate() {
            match op {
                Op::StartIter { slot, .. } => {
                    starts.entry(*slot).or_insert((t, i));
                }
                Op::ResumeIter { slot } => {
                    resumes.entry(*slot).or_insert((t, i));
                }
                _ => {}
            }
        }
    }
    let counters = Mutex::new(Counters::default());
    for (t, ops) in sc.threads.iter().enumerate() {
        for (i, op) in ops.iter().enumerate() {
            let needed = op_searchers(op);
            let mut own: Vec<Option<TSut>> = (0..sc.searchers.len()).map(|_| None).collect();
            if fresh_per_op {
                for s in needed {
                    if s < sc.searchers.len() && own[s].is_none() {
                        own[s] = Some(build_tsut(&sc.searchers[s])?);
                    }
                }
            }
            let suts: &[Option<TSut>] = if fresh_per_op { &own } else { &shared };
            let slots: Mutex<Vec<Option<InFlight>>> = Mutex::new((0..sc.slots).map(|_| None).collect());
            let mut bufs: Vec<Vec<u8>> = vec![Vec::with_capacity(1024), Vec::with_capacity(1024)];
            match op {
                Op::ResumeIter { slot } => {
                    // result is produced together with its StartIter (below),
                    // unless there is no producer at all
                    if !starts.contains_key(slot) || resumes.get(slot) != Some(&(t, i)) {
                        out[t][i] = vec![R::Err("handoff never arrived".into())];
                    }
                }
                Op::StartIter { slot, .. } => {
                    let env = Env { specs: &sc.searchers, suts, fixed: &sc.fixed_hays, slots: &slots, counters: &counters };
                    if starts.get(slot) != Some(&(t, i)) {
                        // a second producer for the same slot: executed alone
                        out[t][i] = exec_op(&env, None, &mut bufs, op, 0);
                    } else {
                        out[t][i] = exec_op(&env, None, &mut bufs, op, 0);
                        if let Some(&(rt, ri)) = resumes.get(slot) {
                            let mut bufs2: Vec<Vec<u8>> = vec![Vec::with_capacity(1024), Vec::with_capacity(1024)];
                            out[rt][ri] = exec_op(&env, None, &mut bufs2, &sc.threads[rt][ri], 0);
                        }
                    }
                    slots.lock().unwrap().clear();
                }
                _ => {
                    let env = Env { specs: &sc.searchers, suts, fixed: &sc.fixed_hays, slots: &slots, counters: &counters };
                    out[t][i] = exec_op(&env, None, &mut bufs, op, 0);
                }
            }
        }
    }
    Ok(out)
}

#[derive(Debug, Clone)]
pub struct TViolation {
    pub class: String,
    pub detail: String,
}

fn short_op(op: &Op) -> String {
    let s = format!("{:?}", op);
    if s.len() > 300 {
        format!("{}...", &s[..300])
    } else {
        s
    }
}

fn compare(sc: &ThreadScenario, want: &[Vec<Vec<R>>], got: &[Vec<Vec<R>>], class: &str, what: &str) -> Option<TViolation> {
    for t in 0..want.len() {
        for i in 0..want[t].len() {
            let g = got.get(t).and_then(|x| x.get(i));
            if g != Some(&want[t][i]) {
                return Some(TViolation {
                    class: class.to_string(),
                    detail: format!(
                        "thread {} op #{} {}: {} gave {:?}; alone on a fresh searcher it gives {:?}",
                        t, i, short_op(&sc.threads[t][i]), what,
                        g.map(|v| &v[..v.len().min(12)]), &want[t][i][..want[t][i].len().min(12)]
                    ),
                });
            }
        }
    }
    None
}

pub struct TVerdict {
    pub violation: Option<TViolation>,
    pub invalid: Option<String>,
    pub conc: Option<ConcRun>,
}

pub fn exec(sc: &ThreadScenario) -> TVerdict {
    let before = match reference(sc) {
        Ok(r) => r,
        Err(e) => return TVerdict { violation: None, invalid: Some(e), conc: None },
    };
    let suts = match build_all(sc) {
        Ok(s) => s,
        Err(e) => return TVerdict { violation: None, invalid: Some(e), conc: None },
    };
    let conc = run_conc(sc, &suts);
    drop(suts);
    if conc.deadlock {
        // only reachable for hand-edited / minimiser-edited scenarios (a
        // consumer whose producer was removed): not a judgement about the library
        return TVerdict { violation: None, invalid: Some("scheduler deadlock: a ResumeIter has no reachable producer".into()), conc: Some(conc) };
    }
    if let Some(d) = &conc.thread_died {
        return TVerdict {
            violation: Some(TViolation { class: "thread-died".into(), detail: format!("a client thread died outside any operation: {}", d) }),
            invalid: None,
            conc: Some(conc),
        };
    }
    let class = if sc.threads.len() == 1 { "history-dependence" } else { "concurrent-result-differs" };
    let what = if sc.threads.len() == 1 { "on the long-lived searcher, after the preceding operations," } else { "on the shared searcher under this interleaving" };
    if let Some(v) = compare(sc, &before, &conc.results, class, what) {
        return TVerdict { violation: Some(v), invalid: None, conc: Some(conc) };
    }
    let after = match reference(sc) {
        Ok(r) => r,
        Err(e) => return TVerdict { violation: None, invalid: Some(e), conc: Some(conc) },
    };
    if let Some(v) = compare(sc, &before, &after, "history-dependence", "a fresh searcher built after the concurrent phase") {
        return TVerdict { violation: Some(v), invalid: None, conc: Some(conc) };
    }
    if conc.deadlock {
        return TVerdict { violation: None, invalid: Some("scheduler deadlock (scenario construction bug)".into()), conc: Some(conc) };
    }
    TVerdict { violation: None, invalid: None, conc: Some(conc) }
}

// ------------------------------------------------------------------ driver side

pub fn plan(thorough: bool, s: f64) -> Vec<ClassPlan> {
    let n = |q: u64, t: u64| -> u64 { (((if thorough { t } else { q }) as f64) * s).ceil() as u64 };
    vec![
        ClassPlan { class: "conc", total: n(16_000, 1_600_000) },
        ClassPlan { class: "hist", total: n(4_000, 400_000) },
    ]
}

pub fn required_probes() -> Vec<&'static str> {
    vec![
        "switch_inside_search_loop",
        "switch_inside_stream_loop",
        "switch_at_seam_call",
        "switch_inside_nfa_failure_loop",
        "handoff_completed",
        "stall_fired",
        "client_crash_fired",
        "io_error_fired",
        "cancelled_iterator",
        "clone_op",
        "nested_search",
        "interleaved_iterators",
        "policy_pct_run",
        "policy_random_run",
        "packed_op",
        "packed_searcher_entered",
        "prefilter_consulted",
        "history_run",
    ]
}

pub fn gen_value(_prop: &str, class: &str, seed: u64, idx: u64) -> serde_json::Value {
    serde_json::to_value(gen_thread(class, seed, idx)).unwrap()
}

fn sig(sc: &ThreadScenario) -> u64 {
    let mut h = Hasher64::new();
    let s = serde_json::to_vec(sc).unwrap_or_default();
    h.bytes(&s);
    h.finish()
}

pub fn run_job(spec: &JobSpec, progress: &dyn Fn(u64)) -> WorkerOut {
    silence_panics();
    let class = spec.class.split('#').next().unwrap_or("conc").to_string();
    let mut out = WorkerOut::default();
    out.sites = vec![0; NSITES];
    let mut nontrivial: HashSet<u64> = HashSet::new();
    let mut sigs: HashSet<u64> = HashSet::new();
    let mut traces: HashSet<u64> = HashSet::new();
    let probe = |out: &mut WorkerOut, name: &str, n: u64| {
        *out.probes.entry(name.to_string()).or_insert(0) += n;
    };
    for idx in spec.from..spec.to {
        progress(idx);
        let mut sc = gen_thread(&class, spec.seed, idx);
        out.scenarios += 1;
        let v = exec(&sc);
        if let Some(inv) = v.invalid {
            out.invalid += 1;
            if out.invalid_samples.len() < 3 {
                out.invalid_samples.push(format!("idx {}: {}", idx, inv));
            }
            continue;
        }
        let conc = v.conc.as_ref().unwrap();
        out.execs += 1;
        out.events += conc.points;
        let mut h = Hasher64::new();
        h.u64(idx);
        h.u64(conc.trace);
        h.u64(conc.points);
        let rs = serde_json::to_vec(&conc.results).unwrap_or_default();
        h.bytes(&rs);
        out.range_hash = out.range_hash.wrapping_add(h.finish());
        for i in 0..NSITES {
            out.sites[i] += conc.sites[i];
        }
        let s = sig(&sc);
        sigs.insert(s);
        let c = &conc.counters;
        let in_search = conc.switch_sites.iter().any(|&x| x == verif::site::FIND_FWD_BYTE || x == verif::site::OVERLAPPING_BYTE);
        let in_stream = conc.switch_sites.iter().any(|&x| x == verif::site::STREAM_BYTE || x == verif::site::STREAM_NEXT);
        let at_seam = conc.switch_sites.iter().any(|&x| x == crate::sched::SEAM_READ || x == crate::sched::SEAM_WRITE || x == crate::sched::SEAM_CLOSURE);
        let in_fail = conc.switch_sites.iter().any(|&x| x == verif::site::NFA_NONCONTIGUOUS_FAIL || x == verif::site::NFA_CONTIGUOUS_FAIL);
        probe(&mut out, "switch_inside_search_loop", in_search as u64);
        probe(&mut out, "switch_inside_stream_loop", in_stream as u64);
        probe(&mut out, "switch_at_seam_call", at_seam as u64);
        probe(&mut out, "switch_inside_nfa_failure_loop", in_fail as u64);
        probe(&mut out, "handoff_completed", c.handoff_completed);
        probe(&mut out, "stall_fired", conc.stall_fired as u64);
        probe(&mut out, "client_crash_fired", c.client_crash);
        probe(&mut out, "io_error_fired", c.io_error);
        probe(&mut out, "cancelled_iterator", c.cancel);
        probe(&mut out, "clone_op", c.clone_ops);
        probe(&mut out, "nested_search", c.nested);
        probe(&mut out, "interleaved_iterators", c.interleaved);
        probe(&mut out, "policy_pct_run", (sc.policy == Policy::Pct && sc.threads.len() > 1) as u64);
        probe(&mut out, "policy_random_run", (sc.policy == Policy::Random && sc.threads.len() > 1) as u64);
        probe(&mut out, "packed_op", c.packed_ops);
        probe(&mut out, "packed_searcher_entered", conc.sites[verif::site::PACKED_FIND_IN as usize]);
        probe(&mut out, "prefilter_consulted", conc.sites[verif::site::FIND_FWD_PREFILTER as usize] + conc.sites[verif::site::OVERLAPPING_PREFILTER as usize]);
        probe(&mut out, "history_run", (sc.threads.len() == 1) as u64);
        probe(&mut out, "context_switches", conc.switches);
        probe(&mut out, "context_switches_inside_library", conc.switches_in_lib);
        probe(&mut out, "operations", c.ops);
        probe(&mut out, "stream_operations", c.stream_ops);
        *out.fired.entry("client_crash_panic".into()).or_insert(0) += c.client_crash;
        *out.fired.entry("stream_io_error".into()).or_insert(0) += c.io_error;
        *out.fired.entry("cancel_drop_iterator".into()).or_insert(0) += c.cancel;
        *out.fired.entry("stall_thread".into()).or_insert(0) += conc.stall_fired as u64;
        *out.fired.entry("iterator_migration".into()).or_insert(0) += c.handoff_completed;
        *out.config_counts.entry(format!("class={}", class)).or_insert(0) += 1;
        *out.config_counts.entry(format!("threads={}", sc.threads.len())).or_insert(0) += 1;
        *out.config_counts.entry(format!("policy={:?}", sc.policy)).or_insert(0) += 1;
        traces.insert(conc.trace ^ s);
        if let Some(x) = v.violation {
            out.failure_count += 1;
            *out.classes.entry(x.class.clone()).or_insert(0) += 1;
            if out.failures.len() < 4 {
                sc.decisions = Some(conc.decisions.clone());
                out.failures.push(Failure {
                    job_from: 0,
                    idx,
                    gen_class: class.clone(),
                    class: x.class,
                    detail: x.detail,
                    scenario: serde_json::to_value(&sc).unwrap(),
                });
            }
            continue;
        }
        let nt = c.matches > 0 && (if sc.threads.len() > 1 { conc.switches_in_lib >= 2 } else { c.ops >= 8 });
        if nt {
            nontrivial.insert(conc.trace ^ s);
            if out.samples.len() < spec.want_samples {
                out.samples.push(serde_json::json!({
                    "note": "non-trivial: some operation reported a match and (concurrent class) at least two context switches happened inside library search loops / (history class) at least 8 operations ran on the long-lived searcher",
                    "threads": sc.threads.iter().map(|t| t.iter().map(short_op).collect::<Vec<_>>()).collect::<Vec<_>>(),
                    "searchers": sc.searchers.iter().map(|s| serde_json::json!({"patterns": s.patterns.iter().map(|p| crate::scenario::show(p)).collect::<Vec<_>>(), "opts": s.opts, "packed": s.packed})).collect::<Vec<_>>(),
                    "policy": format!("{:?} density={} change_points={:?} stall={:?}", sc.policy, sc.density, sc.change_points, sc.stall),
                    "scheduler_decisions": conc.decisions.iter().take(64).collect::<Vec<_>>(),
                    "context_switches": conc.switches,
                    "yield_points": conc.points,
                    "results_thread0": conc.results.first().map(|r| r.iter().take(3).collect::<Vec<_>>()),
                }));
            }
        }
    }
    out.nontrivial = nontrivial.into_iter().collect();
    out.nontrivial.sort();
    out.signatures = traces.into_iter().collect(); // distinct (scenario, interleaving) hashes
    out.signatures.sort();
    let _ = sigs;
    out
}

pub fn evidence_texts() -> (String, serde_json::Value, Vec<String>) {
    let rule = "Scenarios are generated from (VERIF_SEED, run index): 1-3 searchers (AhoCorasick with every kind/option/match kind, the three Automaton types, packed::Searcher), 3-5 haystacks, 2-4 client threads with 2-8 operations each over the whole public search API (class conc) or one client with 12-40 operations (class hist), handoff pairs (an iterator started by one client is drained by another), a scheduling policy (uniform random with a preemption density, or PCT with d change points), and faults (client crash = panic thrown from the reader/writer/closure, stream I/O errors, dropped iterators, a stalled thread, clone/drop of the searcher incl. a clone that outlives the searcher it was cloned from, re-entrant nested search from inside a read/closure). One scenario in ten has a searcher with a 1-4 KiB pattern whose stream operations use the shipped buffer-capacity formula; 5% of the histories have 600-1500 operations on one searcher; one concurrent scenario in ten has 20-60 operations per thread, one in twelve 5-6 threads. One evaluation = one execution of the concurrent phase on real OS threads, exactly one of which runs at a time (baton), with yield points inside the library search loops (guarded hooks) and at every seam call; every operation's outcome is compared with the same operation executed alone on a freshly built private searcher, computed before and after the concurrent phase. Non-trivial: some operation reported a match and at least two context switches happened inside library loops (conc) / at least 8 operations ran on the long-lived searcher (hist). Distinct = distinct (scenario hash, interleaving hash) where the interleaving hash covers every context switch (from-thread, site, to-thread).".to_string();
    let components = serde_json::json!({
        "real_code": [
            "real OS threads (std::thread::scope) sharing real searchers by reference; AhoCorasick clones (Arc) made and dropped during the run",
            "all search entry points: try_find/find/is_match, find_iter, overlapping state stepping and iterator, replace_all(_with)_bytes, stream find/replace on simulated readers/writers, packed::Searcher find_in/find_iter; prefilters, memchr, Teddy native",
        ],
        "stubs": [
            "the choice of which thread runs (baton scheduler at hook yield points and seam calls; seeded or replayed from an explicit decision list)",
            "SimReader / SimWriter / scripted closure (as in streamsim), including panics thrown from inside them"
        ],
        "second_engine": "Miri (free-running threads released by a barrier, seeded preemption at rates 0.01-0.5, data-race detector, isolation on) on reduced general scenarios and on high-contention first-use scenarios (one small searcher whose kind cycles with the index, 2-3 threads starting the same kind of search at once); see miri_* keys"
    });
    let assumptions = vec![
        "Only the baton holder runs library code, so interleavings are explored at hook/seam granularity; instruction-level races are left to the Miri batch.".to_string(),
        "The reference is the library itself on a fresh searcher: results are compared with themselves, so defects of single-threaded semantics are out of scope here.".to_string(),
        "The hook thread-locals (cfg(aho_corasick_verif)) are harness state and not part of the searchers.".to_string(),
    ];
    (rule, components, assumptions)
}

pub fn replay(rf: &ReplayFile, path: &str, verbose: bool) -> i32 {
    let sc: ThreadScenario = match serde_json::from_value(rf.scenario.clone()) {
        Ok(s) => s,
        Err(e) => {
            eprintln!("bad thread scenario: {}", e);
            return 2;
        }
    };
    silence_panics();
    let v = exec(&sc);
    if let Some(inv) = v.invalid {
        println!("REPLAY invalid: {}", inv);
        return 2;
    }
    if verbose {
        if let Some(c) = &v.conc {
            println!("  yield points {}, context switches {} ({} inside the library), decisions {:?}", c.points, c.switches, c.switches_in_lib, &c.decisions[..c.decisions.len().min(64)]);
        }
    }
    match v.violation {
        Some(x) => {
            println!("REPLAY class={} property={} detail: {}", x.class, rf.property, x.detail);
            println!("VIOLATION property={} replay={}", rf.property, path);
            1
        }
        None => {
            println!("REPLAY held property={}", rf.property);
            0
        }
    }
}

pub fn minimise(rf: &mut ReplayFile, outp: &str) -> i32 {
    let sc: ThreadScenario = match serde_json::from_value(rf.scenario.clone()) {
        Ok(s) => s,
        Err(_) => return 2,
    };
    silence_panics();
    let (m, used) = crate::tmin::minimise(&sc, &rf.class, 3000);
    let v = exec(&m);
    if let Some(x) = &v.violation {
        rf.detail = x.detail.clone();
    }
    rf.scenario = serde_json::to_value(&m).unwrap();
    rf.note = format!("minimised with {} re-executions", used);
    if std::fs::write(outp, serde_json::to_string_pretty(&rf).unwrap()).is_ok() {
        0
    } else {
        2
    }
}

// ------------------------------------------------------------------ free-running mode (Miri)

/// The concurrent phase with NO baton: threads run freely. Used under Miri,
/// whose own seeded scheduler preempts at arbitrary instructions and whose
/// race detector needs accesses that are not ordered by a baton.
pub fn run_free(sc: &ThreadScenario, suts: &[Option<TSut>]) -> Vec<Vec<Vec<R>>> {
    let n = sc.threads.len();
    let slots: Mutex<Vec<Option<InFlight>>> = Mutex::new((0..sc.slots).map(|_| None).collect());
    let counters = Mutex::new(Counters::default());
    let results: Mutex<Vec<Vec<Vec<R>>>> = Mutex::new(vec![Vec::new(); n]);
    // all threads start their first operation together (first-use races)
    let gate = std::sync::Barrier::new(n);
    {
        let env = Env { specs: &sc.searchers, suts, fixed: &sc.fixed_hays, slots: &slots, counters: &counters };
        std::thread::scope(|scope| {
            for tid in 0..n {
                let env = &env;
                let results = &results;
                let ops = &sc.threads[tid];
                let gate = &gate;
                scope.spawn(move || {
                    let mut bufs: Vec<Vec<u8>> = vec![Vec::with_capacity(256), Vec::with_capacity(256)];
                    gate.wait();
                    let mut res = Vec::with_capacity(ops.len());
                    for op in ops.iter() {
                        res.push(exec_op(env, None, &mut bufs, op, tid));
                    }
                    results.lock().unwrap()[tid] = res;
                });
            }
        });
    }
    slots.lock().unwrap().clear();
    let r = std::mem::take(&mut *results.lock().unwrap());
    r
}

/// The same operations, thread after thread, on the calling thread (used to
/// tell whether an error reported by Miri needs concurrency to appear).
pub fn run_seq(sc: &ThreadScenario, suts: &[Option<TSut>]) -> Vec<Vec<Vec<R>>> {
    let slots: Mutex<Vec<Option<InFlight>>> = Mutex::new((0..sc.slots).map(|_| None).collect());
    let counters = Mutex::new(Counters::default());
    let mut results = Vec::new();
    {
        let env = Env { specs: &sc.searchers, suts, fixed: &sc.fixed_hays, slots: &slots, counters: &counters };
        // producers first so that every ResumeIter finds its iterator
        let mut order: Vec<(usize, usize)> = Vec::new();
        for pass in 0..2 {
            for (t, ops) in sc.threads.iter().enumerate() {
                for (i, op) in ops.iter().enumerate() {
                    let is_resume = matches!(op, Op::ResumeIter { .. });
                    if (pass == 0) != is_resume {
                        order.push((t, i));
                    }
                }
            }
        }
        let mut res: Vec<Vec<Vec<R>>> = sc.threads.iter().map(|t| vec![Vec::new(); t.len()]).collect();
        let mut bufs: Vec<Vec<Vec<u8>>> = sc.threads.iter().map(|_| vec![Vec::with_capacity(256), Vec::with_capacity(256)]).collect();
        for (t, i) in order {
            res[t][i] = exec_op(&env, None, &mut bufs[t], &sc.threads[t][i], t);
        }
        results.append(&mut res);
    }
    slots.lock().unwrap().clear();
    results
}

/// High-contention scenarios per run index in the Miri batch (plus one general one).
pub const MIRI_RACE_PER_INDEX: u64 = 5;

/// `simctl miri-run <seed> <from> <to> [replay-file|-] [seq]`: reduced scenarios,
/// free-running threads, results compared with the sequential reference.
pub fn miri_run(seed: u64, from: u64, to: u64, replay_file: Option<&str>, sequential: bool) -> i32 {
    silence_panics();
    let mut bad = 0;
    let scenarios: Vec<(u64, ThreadScenario)> = match replay_file {
        Some(p) => {
            let s = std::fs::read_to_string(p).expect("replay file");
            let rf: ReplayFile = serde_json::from_str(&s).expect("replay json");
            vec![(0, serde_json::from_value(rf.scenario).expect("scenario"))]
        }
        // every index runs one general reduced scenario and MIRI_RACE_PER_INDEX high-contention ones
        None => (from..to)
            .flat_map(|i| {
                let mut v = vec![(i, gen_thread("miri", seed, i))];
                for k in 0..MIRI_RACE_PER_INDEX {
                    v.push((i, gen_thread("race", seed, MIRI_RACE_PER_INDEX * i + k)));
                }
                v
            })
            .collect(),
    };
    for (idx, sc) in scenarios {
        let want = match reference_with(&sc, false) {
            Ok(r) => r,
            Err(e) => {
                println!("MIRI-RUN idx={} invalid: {}", idx, e);
                continue;
            }
        };
        let suts = match build_all(&sc) {
            Ok(s) => s,
            Err(e) => {
                println!("MIRI-RUN idx={} invalid: {}", idx, e);
                continue;
            }
        };
        let got = if sequential { run_seq(&sc, &suts) } else { run_free(&sc, &suts) };
        drop(suts);
        let nops: usize = sc.threads.iter().map(|t| t.len()).sum();
        match compare(&sc, &want, &got, "concurrent-result-differs", "on the shared searcher with free-running threads") {
            Some(v) => {
                bad += 1;
                println!("MIRI-RUN idx={} MISMATCH class={} detail: {} [{}]", idx, v.class, v.detail.replace('\n', " "), sc.origin);
                println!("MIRI-SCENARIO {}", serde_json::to_string(&sc).unwrap());
            }
            None => println!("MIRI-RUN idx={} ok threads={} ops={} [{}]", idx, sc.threads.len(), nops, sc.origin),
        }
    }
    if bad > 0 {
        1
    } else {
        0
    }
}

/// Cost probe (used under Miri only while tuning the Miri scenario classes).
pub fn build_bench() -> i32 {
    use crate::scenario::{BuildOpts, Kind, MKind, Surface};
    let pats: Vec<Vec<u8>> = vec![b"abab".to_vec(), b"bab".to_vec(), b"aabb".to_vec(), b"ba".to_vec()];
    for (name, surface, kind, packed, prefilter, dd) in [
        ("top-noncontig", Surface::Top, Kind::Noncontiguous, false, false, Some(0usize)),
        ("top-noncontig-dense2", Surface::Top, Kind::Noncontiguous, false, false, None),
        ("top-noncontig-prefilter", Surface::Top, Kind::Noncontiguous, false, true, Some(0)),
        ("noncontig-direct", Surface::Noncontiguous, Kind::Auto, false, false, Some(0)),
        ("top-contig", Surface::Top, Kind::Contiguous, false, false, Some(0)),
        ("top-dfa", Surface::Top, Kind::Dfa, false, false, Some(0)),
        ("top-auto", Surface::Top, Kind::Auto, false, false, None),
        ("packed", Surface::Top, Kind::Auto, true, false, None),
    ] {
        let t0 = std::time::Instant::now();
        let spec = SearcherSpec {
            patterns: pats.clone(),
            opts: BuildOpts { surface, kind, match_kind: MKind::LeftmostFirst, start_both: false, case_insensitive: false, dense_depth: dd, byte_classes: true, prefilter, via_ref: false },
            packed,
            packed_cfg: 0,
        };
        let t = build_tsut(&spec);
        println!("BUILD {} ok={} {}ms", name, t.is_ok(), t0.elapsed().as_millis());
    }
    0
}
