//! threadsim (C17) — baton scheduler over real threads. (stub, filled in below)

use crate::parent::{ClassPlan, JobSpec, ReplayFile};
use crate::streamdrv::WorkerOut;

#[inline]
pub fn yield_point(_site: u32) {}

pub fn plan(_thorough: bool, _scale: f64) -> Vec<ClassPlan> {
    vec![]
}
pub fn required_probes() -> Vec<&'static str> {
    vec![]
}
pub fn run_job(_spec: &JobSpec, _progress: &dyn Fn(u64)) -> WorkerOut {
    WorkerOut::default()
}
pub fn gen_value(_prop: &str, _class: &str, _seed: u64, _idx: u64) -> serde_json::Value {
    serde_json::Value::Null
}
pub fn evidence_texts() -> (String, serde_json::Value, Vec<String>) {
    (String::new(), serde_json::Value::Null, vec![])
}
pub fn replay(_rf: &ReplayFile, _path: &str, _verbose: bool) -> i32 {
    2
}
pub fn minimise(_rf: &mut ReplayFile, _outp: &str) -> i32 {
    2
}
