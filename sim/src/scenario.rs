//! Explicit scenarios. A scenario is produced by `gen` from the PRNG and is
//! the *only* input of `exec`; replay files are serialised scenarios.

use serde::{Deserialize, Serialize};

/// Bytes as lowercase hex in JSON (compact, loss-free).
pub mod hex {
    use serde::{Deserialize, Deserializer, Serializer};
    pub fn enc(b: &[u8]) -> String {
        let mut s = String::with_capacity(b.len() * 2);
        for x in b {
            s.push_str(&format!("{:02x}", x));
        }
        s
    }
    pub fn dec(s: &str) -> Result<Vec<u8>, String> {
        if s.len() % 2 != 0 {
            return Err("odd hex length".into());
        }
        (0..s.len() / 2)
            .map(|i| {
                u8::from_str_radix(&s[2 * i..2 * i + 2], 16)
                    .map_err(|e| e.to_string())
            })
            .collect()
    }
    pub fn serialize<S: Serializer>(b: &Vec<u8>, s: S) -> Result<S::Ok, S::Error> {
        s.serialize_str(&enc(b))
    }
    pub fn deserialize<'de, D: Deserializer<'de>>(d: D) -> Result<Vec<u8>, D::Error> {
        let s = String::deserialize(d)?;
        dec(&s).map_err(serde::de::Error::custom)
    }
}

pub mod hexvec {
    use serde::ser::SerializeSeq;
    use serde::{Deserialize, Deserializer, Serializer};
    pub fn serialize<S: Serializer>(v: &Vec<Vec<u8>>, s: S) -> Result<S::Ok, S::Error> {
        let mut seq = s.serialize_seq(Some(v.len()))?;
        for b in v {
            seq.serialize_element(&super::hex::enc(b))?;
        }
        seq.end()
    }
    pub fn deserialize<'de, D: Deserializer<'de>>(d: D) -> Result<Vec<Vec<u8>>, D::Error> {
        let v = Vec::<String>::deserialize(d)?;
        v.iter()
            .map(|s| super::hex::dec(s).map_err(serde::de::Error::custom))
            .collect()
    }
}

/// Printable rendering of bytes for human-readable reports.
pub fn show(b: &[u8]) -> String {
    let mut s = String::new();
    for &x in b.iter().take(96) {
        if x.is_ascii_graphic() && x != b'\\' && x != b'"' {
            s.push(x as char);
        } else {
            s.push_str(&format!("\\x{:02x}", x));
        }
    }
    if b.len() > 96 {
        s.push_str(&format!("...(+{})", b.len() - 96));
    }
    s
}

#[derive(Serialize, Deserialize, Clone, Copy, Debug, PartialEq, Eq, Hash)]
pub enum Kind {
    Auto,
    Noncontiguous,
    Contiguous,
    Dfa,
}

/// Which public type the operations are issued against.
#[derive(Serialize, Deserialize, Clone, Copy, Debug, PartialEq, Eq, Hash)]
pub enum Surface {
    /// `AhoCorasick` built by `AhoCorasickBuilder` (honours `kind`).
    Top,
    /// `nfa::noncontiguous::NFA` through the `Automaton` trait.
    Noncontiguous,
    /// `nfa::contiguous::NFA` through the `Automaton` trait.
    Contiguous,
    /// `dfa::DFA` through the `Automaton` trait.
    Dfa,
}

#[derive(Serialize, Deserialize, Clone, Copy, Debug, PartialEq, Eq, Hash)]
pub enum MKind {
    Standard,
    LeftmostFirst,
    LeftmostLongest,
}

#[derive(Serialize, Deserialize, Clone, Debug, PartialEq)]
pub struct BuildOpts {
    pub surface: Surface,
    pub kind: Kind,
    pub match_kind: MKind,
    pub start_both: bool,
    pub case_insensitive: bool,
    pub dense_depth: Option<usize>,
    pub byte_classes: bool,
    pub prefilter: bool,
    /// (automaton surfaces only) issue the stream operations through the
    /// `Automaton for &A` forwarding impl instead of `A` itself
    #[serde(default)]
    pub via_ref: bool,
}

impl BuildOpts {
    pub fn plain() -> BuildOpts {
        BuildOpts {
            surface: Surface::Top,
            kind: Kind::Auto,
            match_kind: MKind::Standard,
            start_both: false,
            case_insensitive: false,
            dense_depth: None,
            byte_classes: true,
            prefilter: true,
            via_ref: false,
        }
    }
}

/// One answer of the simulated reader, relative to the buffer it is offered.
#[derive(Serialize, Deserialize, Clone, Copy, Debug, PartialEq, Eq)]
pub enum ReadStep {
    /// Deliver n bytes (clipped to [1, min(offered, remaining)]).
    Bytes(usize),
    /// Fill the whole buffer offered.
    Fill,
    /// Half the buffer offered (at least 1).
    Half,
    /// All but one byte of the buffer offered (at least 1).
    AllButOne,
    /// Deliver up to absolute stream offset `abs` (clipped); if already
    /// past it, behaves like `Bytes(1)`.
    Until(usize),
    /// Report end of stream (`Ok(0)`) although data may remain ("soft EOF").
    /// Data delivery resumes with the next step if the library reads again.
    SoftEof,
}

#[derive(Serialize, Deserialize, Clone, Copy, Debug, PartialEq, Eq, Hash)]
pub enum ErrKind {
    Other,
    Interrupted,
    WouldBlock,
    TimedOut,
    UnexpectedEof,
    ConnectionReset,
    BrokenPipe,
    InvalidData,
    ConnectionAborted,
    NotConnected,
    PermissionDenied,
    Unsupported,
    OutOfMemory,
    NotFound,
    InvalidInput,
    WriteZero,
    /// raw OS errors, as a real file / socket / pipe produces them
    OsEio,
    OsEnospc,
    OsEagain,
    OsEintr,
    OsEpipe,
}

pub const ERR_KINDS: [ErrKind; 21] = [
    ErrKind::Other,
    ErrKind::Interrupted,
    ErrKind::WouldBlock,
    ErrKind::TimedOut,
    ErrKind::UnexpectedEof,
    ErrKind::ConnectionReset,
    ErrKind::BrokenPipe,
    ErrKind::InvalidData,
    ErrKind::ConnectionAborted,
    ErrKind::NotConnected,
    ErrKind::PermissionDenied,
    ErrKind::Unsupported,
    ErrKind::OutOfMemory,
    ErrKind::NotFound,
    ErrKind::InvalidInput,
    ErrKind::WriteZero,
    ErrKind::OsEio,
    ErrKind::OsEnospc,
    ErrKind::OsEagain,
    ErrKind::OsEintr,
    ErrKind::OsEpipe,
];

impl ErrKind {
    pub fn raw_os(self) -> Option<i32> {
        match self {
            ErrKind::OsEio => Some(5),
            ErrKind::OsEnospc => Some(28),
            ErrKind::OsEagain => Some(11),
            ErrKind::OsEintr => Some(4),
            ErrKind::OsEpipe => Some(32),
            _ => None,
        }
    }
    /// The `io::ErrorKind` a caller observes for this injected error.
    pub fn to_io(self) -> std::io::ErrorKind {
        use std::io::ErrorKind as K;
        if let Some(n) = self.raw_os() {
            return std::io::Error::from_raw_os_error(n).kind();
        }
        match self {
            ErrKind::Other => K::Other,
            ErrKind::Interrupted => K::Interrupted,
            ErrKind::WouldBlock => K::WouldBlock,
            ErrKind::TimedOut => K::TimedOut,
            ErrKind::UnexpectedEof => K::UnexpectedEof,
            ErrKind::ConnectionReset => K::ConnectionReset,
            ErrKind::BrokenPipe => K::BrokenPipe,
            ErrKind::InvalidData => K::InvalidData,
            ErrKind::ConnectionAborted => K::ConnectionAborted,
            ErrKind::NotConnected => K::NotConnected,
            ErrKind::PermissionDenied => K::PermissionDenied,
            ErrKind::Unsupported => K::Unsupported,
            ErrKind::OutOfMemory => K::OutOfMemory,
            ErrKind::NotFound => K::NotFound,
            ErrKind::InvalidInput => K::InvalidInput,
            ErrKind::WriteZero => K::WriteZero,
            _ => K::Other,
        }
    }
    /// Build the error the seam returns.
    pub fn make(self, msg: &str) -> std::io::Error {
        match self.raw_os() {
            Some(n) => std::io::Error::from_raw_os_error(n),
            None => std::io::Error::new(self.to_io(), msg.to_string()),
        }
    }
    pub fn is_interrupted(self) -> bool {
        self.to_io() == std::io::ErrorKind::Interrupted
    }
    pub fn idx(self) -> usize {
        ERR_KINDS.iter().position(|k| *k == self).unwrap()
    }
}

/// One answer of the simulated writer.
#[derive(Serialize, Deserialize, Clone, Copy, Debug, PartialEq, Eq)]
pub enum WriteStep {
    /// Accept everything offered.
    All,
    /// Accept n bytes (clipped to [1, offered]).
    Accept(usize),
    /// Accept half (at least 1).
    Half,
    /// Accept all but the last byte offered (at least 1).
    AllButOne,
    /// Return `ErrorKind::Interrupted` once without accepting anything
    /// (retryable noise; `write_all` must absorb it).
    Interrupted,
}

/// What the replacement closure does for its j-th call.
#[derive(Serialize, Deserialize, Clone, Copy, Debug, PartialEq, Eq)]
pub enum ClosureStep {
    /// `wtr.write_all(table[pattern])`
    Table,
    /// table entry written with several `write_all` calls of 1 byte
    TableBytewise,
    /// write nothing
    Nothing,
    /// write the matched bytes back (identity)
    Echo,
}

/// A fault injected at a seam. Positions count *calls of that seam kind*
/// from 0, faulted calls included.
#[derive(Serialize, Deserialize, Clone, Copy, Debug, PartialEq, Eq)]
pub enum Fault {
    /// The read call with this index fails (consumes no data, no read step).
    Read { call: usize, kind: ErrKind, scribble: bool },
    /// The write call with this index fails.
    Write { call: usize, kind: ErrKind },
    /// The first write call that would take the number of accepted bytes
    /// beyond `after_bytes` accepts only up to that many and the next call
    /// fails (if the boundary coincides with a call start, that call fails).
    WriteAfterBytes { after_bytes: usize, kind: ErrKind },
    /// The write call with this index returns `Ok(0)`.
    WriteZero { call: usize },
    /// The flush call with this index fails (only reachable if the library flushes).
    Flush { call: usize, kind: ErrKind },
    /// The closure call with this index fails, optionally after having
    /// written its replacement.
    Closure { call: usize, kind: ErrKind, after_write: bool },
    /// The read call with this index panics (client crash; C17 only).
    ReadPanic { call: usize },
    /// The write call with this index panics (client crash; C17 only).
    WritePanic { call: usize },
    /// The closure call with this index panics (client crash; C17 only).
    ClosurePanic { call: usize },
}

#[derive(Serialize, Deserialize, Clone, Copy, Debug, PartialEq, Eq)]
pub enum StreamOp {
    /// `stream_find_iter` / `try_stream_find_iter`
    Find,
    /// `try_stream_replace_all` with this replacement table
    Replace,
    /// `try_stream_replace_all_with` with this closure script (cycled)
    ReplaceWith,
}

#[derive(Serialize, Deserialize, Clone, Debug, PartialEq)]
pub struct StreamScenario {
    /// Which property this scenario is checked under (C07, C08, C18).
    pub prop: String,
    /// Free-text origin (seed/index/class) — informational only.
    pub origin: String,
    #[serde(with = "hexvec")]
    pub patterns: Vec<Vec<u8>>,
    pub opts: BuildOpts,
    #[serde(with = "hex")]
    pub stream: Vec<u8>,
    /// Spare capacity of the roll buffer (capacity = max pattern + max(1, spare));
    /// `None` = shipped capacity computation.
    pub spare: Option<usize>,
    pub reads: Vec<ReadStep>,
    pub default_read: ReadStep,
    /// The reader overwrites the unused tail of the buffer offered (and the
    /// whole buffer when failing with scribble) with garbage.
    pub scribble: bool,
    /// The simulated reader / writer override `read_vectored` / `write_vectored`
    /// (like `&[u8]`, `File`, sockets): the byte budget of a step is spent across
    /// all slices offered. Otherwise only `read` / `write` exist (std's default
    /// vectored methods then use the first non-empty slice only).
    #[serde(default)]
    pub vectored: bool,
    pub op: StreamOp,
    #[serde(with = "hexvec")]
    pub table: Vec<Vec<u8>>,
    pub closure: Vec<ClosureStep>,
    pub writes: Vec<WriteStep>,
    pub default_write: WriteStep,
    pub faults: Vec<Fault>,
    /// Use the infallible constructor `stream_find_iter` (panics on
    /// unsupported configurations) instead of `try_stream_find_iter`.
    pub infallible_ctor: bool,
    /// How a stream *find* iterator is consumed: 0 `next()` loop, 1 `for_each`, 2 `nth(0)` loop,
    /// 3 `next()` loop plus a second fault-free pass through `count()` and one through `last()`
    /// (a library may legally specialise any `Iterator` method; all must describe the same sequence).
    #[serde(default)]
    pub drive: u8,
}

impl StreamScenario {
    pub fn max_pattern_len(&self) -> usize {
        self.patterns.iter().map(|p| p.len()).max().unwrap_or(0)
    }
}
