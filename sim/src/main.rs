//! simctl — deterministic simulation with fault injection for aho-corasick.
//!
//!   simctl run <prop> <quick|thorough>     parent: spawn workers, judge, write evidence
//!   simctl worker <job.json>               one index range (internal)
//!   simctl replay <file>                   re-execute a replay file in this (fresh) process
//!   simctl minimise <in> <out>             shrink a failing scenario (internal)
//!   simctl selfcheck [n]                   determinism proof over n seeds per engine
//!   simctl gen <prop> <class> <seed> <idx> print a generated scenario

mod parent;
mod rng;
mod scenario;
mod sched;
mod seam;
mod streamdrv;
mod streamgen;
mod streammin;
mod streamsim;
mod sut;
mod texec;
mod tgen;
mod threadsim;
mod tmin;
mod tscen;
mod tsched;
mod tsut;

use std::process::exit;

fn usage() -> ! {
    eprintln!("usage: simctl run <C07|C08|C17|C18> <quick|thorough> | replay <file> | selfcheck [n]");
    exit(2)
}

fn main() {
    let args: Vec<String> = std::env::args().collect();
    if args.len() < 2 {
        usage();
    }
    let code = match args[1].as_str() {
        "run" if args.len() >= 4 => parent::run(&args[2], &args[3]),
        "worker" if args.len() >= 3 => parent::worker(&args[2]),
        "replay" if args.len() >= 3 => parent::replay(&args[2], args.get(3).map(|a| a != "--quiet").unwrap_or(true)),
        "minimise" if args.len() >= 4 => parent::minimise(&args[2], &args[3]),
        "selfcheck" => {
            let n = args.get(2).and_then(|s| s.parse().ok()).unwrap_or(2000);
            parent::selfcheck(n)
        }
        "miri-run" if args.len() >= 5 => threadsim::miri_run(
            args[2].parse().unwrap(),
            args[3].parse().unwrap(),
            args[4].parse().unwrap(),
            args.get(5).map(|s| s.as_str()).filter(|s| *s != "-"),
            args.get(6).map(|s| s == "seq").unwrap_or(false),
        ),
        "build-bench" => threadsim::build_bench(),
        "huge" if args.len() >= 5 => {
            let t0 = std::time::Instant::now();
            let (v, matches, bytes) = if args.get(5).map(|a| a == "replace").unwrap_or(false) {
                streamdrv::huge_replace_run(args[2].parse().unwrap(), args[3].parse().unwrap(), args[4].parse().unwrap())
            } else {
                streamdrv::huge_run(args[2].parse().unwrap(), args[3].parse().unwrap(), args[4].parse().unwrap())
            };
            println!("huge: {:?} matches={} bytes={} in {:.1}s", v, matches, bytes, t0.elapsed().as_secs_f64());
            if v.is_some() { 1 } else { 0 }
        }
        "tgen" if args.len() >= 5 => {
            let sc = tgen::gen_thread(&args[2], args[3].parse().unwrap(), args[4].parse().unwrap());
            println!("{}", serde_json::to_string_pretty(&sc).unwrap());
            0
        }
        "gen" if args.len() >= 6 => {
            let (sc, _) = streamdrv::gen_for(
                &args[2],
                &args[3],
                args[4].parse().unwrap(),
                args[5].parse().unwrap(),
            );
            println!("{}", serde_json::to_string_pretty(&sc).unwrap());
            0
        }
        _ => usage(),
    };
    exit(code)
}
