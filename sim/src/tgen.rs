//! gen(seed, index) -> ThreadScenario (swarm style).

use crate::rng::Rng;
use crate::scenario::*;
use crate::streamgen::{gen_opts, gen_patterns, gen_patterns_ext, gen_stream, spare_choices};
use crate::tscen::*;

fn pal(rng: &mut Rng) -> Vec<u8> {
    match rng.below(4) {
        0 => vec![b'a', b'b'],
        1 => vec![b'a', b'b', b'c'],
        2 => vec![b'a', b'b', b'c', b'd', b'A', b'B'],
        _ => (b'a'..=b'h').collect(),
    }
}

fn gen_searcher(rng: &mut Rng, pal: &[u8], many_ok: bool) -> SearcherSpec {
    let packed = rng.chance(1, 6);
    // rarely 100-300 patterns (the automatic kind selection switches representation)
    let mut patterns = gen_patterns_ext(rng, pal, many_ok && !packed, false);
    if packed {
        patterns.truncate(12);
    } else if rng.chance(1, 12) {
        patterns.push(Vec::new()); // an empty pattern (results only compared with themselves)
    }
    let case = rng.chance(1, 6);
    let mut opts = gen_opts(rng, case);
    opts.via_ref = false; // (a streamsim-only dimension)
    opts.match_kind = match rng.weighted(&[5, 3, 2]) {
        0 => MKind::Standard,
        1 => MKind::LeftmostFirst,
        _ => MKind::LeftmostLongest,
    };
    if packed {
        opts.surface = Surface::Top;
        if opts.match_kind == MKind::Standard {
            opts.match_kind = MKind::LeftmostFirst;
        }
    }
    if !packed && pal.len() >= 6 && rng.chance(1, 2) {
        // a leftmost searcher for which the builder picks the *packed prefilter*
        // (2-16 patterns of length >= 2 with >= 3 distinct start bytes), with one
        // pattern nested inside another so that earliest and leftmost answers differ
        let n = rng.range(4, 8);
        patterns.clear();
        for i in 0..n {
            let l = rng.range(2, 5);
            let mut p: Vec<u8> = (0..l).map(|_| *rng.pick(pal)).collect();
            p[0] = pal[i % pal.len()];
            patterns.push(p);
        }
        let host = patterns[0].clone();
        if host.len() >= 3 {
            patterns.push(host[1..host.len() - (host.len() > 3) as usize].to_vec());
        }
        patterns.retain(|p| p.len() >= 2);
        opts.match_kind = *rng.pick(&[MKind::LeftmostFirst, MKind::LeftmostLongest]);
        opts.prefilter = true;
        opts.case_insensitive = false;
        opts.surface = Surface::Top;
    }
    if !packed && rng.chance(1, 4) && opts.match_kind != MKind::Standard || (!packed && rng.chance(1, 8)) {
        // shapes for which the builder picks one particular prefilter kind
        let rare_pool = [b'Z', b'Q', b'@', b'#', b'~', b'X'];
        let tail = |rng: &mut Rng, n: usize| -> Vec<u8> { (0..n).map(|_| *rng.pick(pal)).collect() };
        patterns.clear();
        match rng.below(3) {
            0 => {
                // a single pattern: memmem
                let n = rng.range(2, 8);
                patterns.push(tail(rng, n));
            }
            1 => {
                // one to three distinct, infrequent start bytes: start-byte prefilter
                let k = rng.range(1, 3);
                for i in 0..rng.range(2, 6) {
                    let mut p = vec![rare_pool[i % k]];
                    let n = rng.range(1, 5);
                    p.extend(tail(rng, n));
                    patterns.push(p);
                }
            }
            _ => {
                // more than three first bytes but one to three shared rare bytes
                // further inside: rare-byte prefilter
                let k = rng.range(1, 3);
                for i in 0..rng.range(4, 7) {
                    let mut p = vec![pal[i % pal.len()], b'0' + i as u8];
                    let n = rng.range(0, 3);
                    p.extend(tail(rng, n));
                    p.push(rare_pool[3 + i % k]);
                    let n = rng.range(0, 2);
                    p.extend(tail(rng, n));
                    patterns.push(p);
                }
            }
        }
        opts.prefilter = true;
        opts.case_insensitive = false;
    }
    let packed_cfg = if packed { *rng.pick(&[0u8, 0, 0, 1, 2, 3, 4, 5]) } else { 0 };
    SearcherSpec { patterns, opts, packed, packed_cfg }
}

fn gen_search(rng: &mut Rng, sc: &ThreadScenario, pal: &[u8], s: usize, fixed_only: bool) -> Search {
    let nh = sc.fixed_hays.len();
    let sparse_pair = nh >= 2 && sc.fixed_hays[nh - 1].len() >= 6_000 && sc.fixed_hays[nh - 1].len() == sc.fixed_hays[nh - 2].len();
    let hay = if !fixed_only && sparse_pair && rng.chance(1, 3) {
        // the sparse pair, copied into the same reusable buffer (same address, same length)
        Hay::Buf { slot: 0, fill: sc.fixed_hays[nh - 1 - rng.below(2)].clone() }
    } else if fixed_only || rng.chance(2, 5) {
        Hay::Fixed(rng.below(sc.fixed_hays.len()))
    } else {
        // a buffer that is overwritten in place: same address, often same length
        let base = &sc.fixed_hays[rng.below(sc.fixed_hays.len())];
        let mut fill = base.clone();
        if !fill.is_empty() && rng.chance(2, 3) {
            for _ in 0..rng.range(1, 2) {
                let i = rng.below(fill.len());
                fill[i] = *rng.pick(pal);
            }
        }
        Hay::Buf { slot: rng.below(2), fill }
    };
    let len = match &hay {
        Hay::Fixed(i) => sc.fixed_hays[*i].len(),
        Hay::Buf { fill, .. } => fill.len(),
    };
    let span = if rng.chance(1, 4) && len > 0 {
        let a = rng.below(len + 1);
        let b = rng.range(a, len);
        Some((a, b))
    } else {
        None
    };
    Search { s, hay, span, anchored: rng.chance(1, 8), earliest: rng.chance(1, 6) }
}

fn gen_table(rng: &mut Rng, n: usize) -> Vec<Vec<u8>> {
    (0..n)
        .map(|i| match rng.below(3) {
            0 => Vec::new(),
            1 => format!("<{}>", i).into_bytes(),
            _ => vec![b'#'; rng.range(1, 3)],
        })
        .collect()
}

fn gen_stream_part(rng: &mut Rng, sc: &ThreadScenario, pal: &[u8], s: usize, allow_panic: bool) -> StreamPart {
    let spec = &sc.searchers[s];
    let pats: Vec<Vec<u8>> = spec.patterns.iter().filter(|p| !p.is_empty()).cloned().collect();
    let pats = if pats.is_empty() { vec![vec![pal[0]]] } else { pats };
    let maxlen = pats.iter().map(|p| p.len()).max().unwrap();
    let long = maxlen >= 512;
    let spare = if long {
        *rng.pick(&[None, None, Some(1), Some(3), Some(maxlen)])
    } else {
        spare_choices(rng, maxlen)
    };
    let cap = maxlen + spare.unwrap_or(3).max(1);
    let target = if long {
        // shorter than, around and well beyond the longest pattern
        match rng.below(4) {
            0 => rng.range(0, 200),
            1 => rng.range(maxlen / 2, maxlen + 10),
            _ => rng.range(maxlen + 1, 3 * maxlen),
        }
    } else {
        rng.range(0, (4 * cap).min(160))
    };
    let mut planted = Vec::new();
    let mut stream = gen_stream(rng, pal, &pats, target, false, &mut planted);
    if long && stream.len() > maxlen && rng.chance(2, 3) {
        let lp = pats.iter().max_by_key(|p| p.len()).unwrap();
        let at = rng.below(stream.len() - lp.len() + 1);
        stream[at..at + lp.len()].copy_from_slice(lp);
    }
    let n = stream.len() + 4;
    let reads: Vec<ReadStep> = match if long { 0 } else { rng.below(4) } {
        0 => vec![],
        1 => (0..n).map(|_| ReadStep::Bytes(rng.range(1, 3))).collect(),
        2 => (0..n).map(|i| if i % 2 == 0 { ReadStep::Bytes(1) } else { ReadStep::Fill }).collect(),
        _ => (0..n).map(|_| ReadStep::Bytes(rng.geometric(10))).collect(),
    };
    let default_read = if long {
        *rng.pick(&[ReadStep::Fill, ReadStep::Half, ReadStep::Bytes(700), ReadStep::Bytes(4096)])
    } else {
        *rng.pick(&[ReadStep::Bytes(1), ReadStep::Fill, ReadStep::Half])
    };
    let kind = *rng.pick(&[StreamOp::Find, StreamOp::Find, StreamOp::Replace, StreamOp::ReplaceWith]);
    let mut faults = Vec::new();
    let rcalls = stream.len().max(1);
    if rng.chance(3, 20) {
        faults.push(Fault::Read {
            call: rng.below(rcalls.min(12) + 1),
            kind: *rng.pick(&[ErrKind::Other, ErrKind::Interrupted, ErrKind::WouldBlock]),
            scribble: rng.chance(1, 2),
        });
    }
    if kind != StreamOp::Find && rng.chance(1, 8) {
        faults.push(Fault::Write { call: rng.below(6), kind: ErrKind::BrokenPipe });
    }
    if allow_panic && rng.chance(1, 8) {
        faults.push(match (kind, rng.below(3)) {
            (StreamOp::Find, _) | (_, 0) => Fault::ReadPanic { call: rng.below(rcalls.min(10) + 1) },
            (StreamOp::ReplaceWith, 1) => Fault::ClosurePanic { call: rng.below(3) },
            _ => Fault::WritePanic { call: rng.below(5) },
        });
    }
    let table = gen_table(rng, spec.patterns.len());
    let ssc = StreamScenario {
        prop: "C17".into(),
        origin: String::new(),
        patterns: vec![],
        opts: spec.opts.clone(),
        stream,
        spare,
        reads,
        default_read,
        scribble: rng.chance(1, 2),
        vectored: rng.chance(1, 3),
        op: kind,
        table,
        closure: vec![*rng.pick(&[ClosureStep::Table, ClosureStep::Echo, ClosureStep::TableBytewise])],
        writes: vec![],
        default_write: *rng.pick(&[WriteStep::All, WriteStep::Accept(1), WriteStep::Half]),
        faults,
        infallible_ctor: rng.chance(1, 10),
        drive: 0,
    };
    StreamPart {
        s,
        kind,
        sc: ssc,
        cancel_after: if kind == StreamOp::Find && rng.chance(3, 20) { Some(rng.below(3)) } else { None },
        nested_at_read: if rng.chance(1, 6) { Some((rng.below(4), rng.below(sc.fixed_hays.len()))) } else { None },
    }
}

fn gen_src(rng: &mut Rng, sc: &ThreadScenario, pal: &[u8], s: usize, fixed_only: bool, allow_panic: bool) -> IterSrc {
    if !sc.searchers[s].packed && rng.chance(1, 3) {
        let s = if rng.chance(4, 5) { 0 } else { s };
        let mut p = gen_stream_part(rng, sc, pal, s, allow_panic);
        p.kind = StreamOp::Find;
        p.sc.op = StreamOp::Find;
        p.sc.faults.retain(|f| !matches!(f, Fault::Write { .. } | Fault::WritePanic { .. } | Fault::ClosurePanic { .. }));
        p.cancel_after = None;
        IterSrc::Stream(Box::new(p))
    } else {
        let kind = *rng.pick(&[IterKind::Find, IterKind::Find, IterKind::OverlappingSteps, IterKind::OverlappingIter]);
        IterSrc::Mem { kind, q: gen_search(rng, sc, pal, s, fixed_only) }
    }
}

fn gen_op(rng: &mut Rng, sc: &ThreadScenario, pal: &[u8], depth: usize) -> Op {
    let s = rng.below(sc.searchers.len());
    let packed = sc.searchers[s].packed;
    let np = sc.searchers[s].patterns.len();
    let w = if packed { [30, 10, 10, 30, 0, 0, 0, 5, 15] } else { [14, 6, 8, 20, 8, 8, 18, 8, 10] };
    match rng.weighted(&w) {
        0 => Op::Find(gen_search(rng, sc, pal, s, false)),
        1 => Op::FindInfallible(gen_search(rng, sc, pal, s, false)),
        2 => Op::IsMatch(gen_search(rng, sc, pal, s, false)),
        3 => Op::Iter {
            kind: if packed { IterKind::Find } else { *rng.pick(&[IterKind::Find, IterKind::Find, IterKind::OverlappingSteps, IterKind::OverlappingIter]) },
            q: gen_search(rng, sc, pal, s, false),
            limit: if rng.chance(1, 5) { Some(rng.below(4)) } else { None },
        },
        4 => Op::ReplaceAll { q: gen_search(rng, sc, pal, s, false), table: gen_table(rng, np) },
        5 => Op::ReplaceAllWith {
            q: gen_search(rng, sc, pal, s, false),
            table: gen_table(rng, np),
            stop_after: if rng.chance(1, 4) { Some(rng.range(1, 3)) } else { None },
            nested: if rng.chance(1, 3) { Some(rng.below(sc.fixed_hays.len())) } else { None },
            panic_at: if rng.chance(1, 8) { Some(rng.below(3)) } else { None },
        },
        6 => {
            let s = if rng.chance(4, 5) { 0 } else { s };
            Op::Stream(Box::new(gen_stream_part(rng, sc, pal, s, true)))
        }
        7 => {
            let a = gen_src(rng, sc, pal, s, false, false);
            let s2 = if rng.chance(1, 2) { s } else { rng.below(sc.searchers.len()) };
            let b = gen_src(rng, sc, pal, s2, false, false);
            Op::Interleave2 { a, b }
        }
        _ => {
            if depth == 0 {
                let inner = gen_op(rng, sc, pal, 1);
                match inner {
                    Op::WithClone(_) | Op::OrphanClone(_) | Op::StartIter { .. } | Op::ResumeIter { .. } => inner,
                    other => {
                        if rng.chance(1, 4) {
                            Op::OrphanClone(Box::new(other))
                        } else {
                            Op::WithClone(Box::new(other))
                        }
                    }
                }
            } else {
                Op::Find(gen_search(rng, sc, pal, s, false))
            }
        }
    }
}

/// High-contention scenario for the Miri batch: one small searcher (kind
/// cycling with the index), 2-3 threads doing plain searches over haystacks
/// rich in failure transitions at the same time. Cheap to interpret, and
/// every thread exercises the same shared structures concurrently.
pub fn gen_race(seed: u64, idx: u64) -> ThreadScenario {
    let mut rng = Rng::for_run(seed, 173, idx);
    let r = &mut rng;
    let (surface, kind, packed) = match idx % 9 {
        0 => (Surface::Top, Kind::Noncontiguous, false),
        1 => (Surface::Noncontiguous, Kind::Auto, false),
        2 => (Surface::Top, Kind::Contiguous, false),
        3 => (Surface::Contiguous, Kind::Auto, false),
        4 => (Surface::Top, Kind::Auto, false),
        5 | 7 => (Surface::Top, Kind::Auto, true),
        6 => (Surface::Top, Kind::Dfa, false),
        // leftmost searcher over a wide alphabet: the builder picks the packed prefilter
        _ => (Surface::Top, Kind::Noncontiguous, false),
    };
    let wide = packed || idx % 9 == 8;
    let pal: Vec<u8> = if wide {
        (b'a'..=b'h').collect()
    } else if r.chance(1, 2) {
        vec![b'a', b'b']
    } else {
        vec![b'a', b'b', b'c']
    };
    let np = if wide { r.range(4, 8) } else { r.range(3, 5) };
    let base: Vec<u8> = (0..6).map(|_| *r.pick(&pal)).collect();
    let mut patterns: Vec<Vec<u8>> = Vec::new();
    for i in 0..np {
        let mut p: Vec<u8> = match r.below(3) {
            0 => base[..r.range(2, 5)].to_vec(),
            1 => base[r.range(0, 3)..].to_vec(),
            _ => (0..r.range(2, 5)).map(|_| *r.pick(&pal)).collect(),
        };
        if wide {
            // distinct first bytes: per-pattern lazily built tables get many entries
            p[0] = pal[i % pal.len()];
        }
        if !patterns.contains(&p) || i == 0 {
            patterns.push(p);
        }
    }
    let opts = BuildOpts {
        surface,
        kind,
        match_kind: if wide { *r.pick(&[MKind::LeftmostFirst, MKind::LeftmostLongest]) } else { *r.pick(&[MKind::Standard, MKind::LeftmostFirst, MKind::LeftmostLongest]) },
        start_both: false,
        case_insensitive: false,
        dense_depth: *r.pick(&[None, Some(0), Some(1)]),
        byte_classes: true,
        prefilter: wide || r.chance(1, 2),
        via_ref: false,
    };
    let mut sc = ThreadScenario {
        prop: "C17".into(),
        origin: format!("race seed={} idx={}", seed, idx),
        searchers: vec![SearcherSpec { patterns: patterns.clone(), opts, packed, packed_cfg: if packed { (idx % 6) as u8 } else { 0 } }],
        fixed_hays: Vec::new(),
        threads: Vec::new(),
        slots: 0,
        policy: Policy::Random,
        sched_seed: r.next_u64(),
        density: 1,
        change_points: Vec::new(),
        stall: None,
        decisions: None,
    };
    // Construction dominates the interpretation cost (two builds per scenario),
    // searches are cheap: so every thread runs several of them back to back.
    let nthreads = r.range(2, 3);
    let nhays = nthreads + 3;
    // First use matters (lazily initialised state): in half of the scenarios every
    // thread's first search runs over a short haystack (the packed searcher's slow
    // path, no vector search), otherwise over a medium one; all threads start alike.
    let short_first = r.chance(1, 2);
    for i in 0..nhays {
        let mut planted = Vec::new();
        let target = if short_first && i < nthreads { r.range(5, 14) } else { r.range(40, 72) };
        let mut h = gen_stream(r, &pal, &patterns, target, false, &mut planted);
        if short_first && i < nthreads && !h.is_empty() {
            // make sure a late pattern occurs in the short haystack
            let p = &patterns[patterns.len() - 1 - (i % patterns.len().min(2))];
            if p.len() <= h.len() {
                let at = r.below(h.len() - p.len() + 1);
                h[at..at + p.len()].copy_from_slice(p);
            }
        }
        sc.fixed_hays.push(h);
    }
    for t in 0..nthreads {
        let q = |h: usize| Search { s: 0, hay: Hay::Fixed(h % nhays), span: None, anchored: false, earliest: false };
        let mut ops = vec![Op::Iter { kind: IterKind::Find, q: q(t), limit: None }];
        for k in 0..r.range(3, 5) {
            let h = t + 1 + k;
            ops.push(match r.below(8) {
                0 => Op::Find(q(h)),
                1 => Op::Iter { kind: if packed { IterKind::Find } else { IterKind::OverlappingIter }, q: q(h), limit: None },
                2 => Op::WithClone(Box::new(Op::Iter { kind: IterKind::Find, q: q(h), limit: None })),
                3 => Op::IsMatch(q(h)),
                4 if !packed => Op::ReplaceAll { q: q(h), table: patterns.iter().map(|_| b"#".to_vec()).collect() },
                5 if !packed => Op::ReplaceAllWith { q: q(h), table: patterns.iter().map(|_| b"<>".to_vec()).collect(), stop_after: None, nested: None, panic_at: None },
                _ => Op::Iter { kind: IterKind::Find, q: q(h), limit: None },
            });
        }
        sc.threads.push(ops);
    }
    sc
}

fn visit_src(src: &mut IterSrc, f: &mut dyn FnMut(&mut StreamPart)) {
    if let IterSrc::Stream(p) = src {
        f(p);
    }
}

/// Calls `f` on every stream part of an operation.
fn visit_parts(op: &mut Op, f: &mut dyn FnMut(&mut StreamPart)) {
    match op {
        Op::Stream(p) => f(p),
        Op::Interleave2 { a, b } => {
            visit_src(a, f);
            visit_src(b, f);
        }
        Op::WithClone(inner) | Op::OrphanClone(inner) => visit_parts(inner, f),
        Op::StartIter { src, .. } => visit_src(src, f),
        _ => {}
    }
}

/// Turns the scenario's text into valid UTF-8 with multi-byte characters: two bytes of the
/// alphabet are replaced by a 2- and a 3-byte character everywhere (a homomorphism: planted
/// occurrences stay occurrences), then some patterns lose a byte or two at either end so that
/// they begin or end inside a code point. The `&str` entry points (which skip matches that
/// split a code point) then see such matches.
fn utf8ify(sc: &mut ThreadScenario, r: &mut Rng, pal: &[u8]) {
    let a = pal[0];
    let b = pal[1 % pal.len()];
    let map = |v: &[u8]| -> Vec<u8> {
        let mut out = Vec::with_capacity(v.len() * 2);
        for &x in v {
            if x == a {
                out.extend_from_slice("\u{e9}".as_bytes());
            } else if x == b {
                out.extend_from_slice("\u{6f22}".as_bytes());
            } else {
                out.push(x);
            }
        }
        out
    };
    for s in sc.searchers.iter_mut() {
        if s.opts.case_insensitive {
            continue;
        }
        for p in s.patterns.iter_mut() {
            let mut q = map(p);
            if q.len() > 1 && r.chance(1, 3) {
                q.remove(0);
            }
            if q.len() > 1 && r.chance(1, 3) {
                q.pop();
            }
            *p = q;
        }
    }
    for h in sc.fixed_hays.iter_mut() {
        *h = map(h);
    }
    for t in sc.threads.iter_mut() {
        for op in t.iter_mut() {
            let mut ss = Vec::new();
            let mut hs = Vec::new();
            crate::tmin::op_refs_mut(op, &mut ss, &mut hs);
            for h in hs {
                if let Hay::Buf { fill, .. } = h {
                    *fill = map(fill);
                }
            }
            visit_parts(op, &mut |p| p.sc.stream = map(&p.sc.stream));
        }
    }
}

pub fn gen_thread(class: &str, seed: u64, idx: u64) -> ThreadScenario {
    if class == "race" {
        return gen_race(seed, idx);
    }
    let stream_id = match class {
        "hist" => 171,
        "miri" => 172,
        _ => 170,
    };
    let mut rng = Rng::for_run(seed, stream_id, idx);
    let r = &mut rng;
    let pal = pal(r);
    let nsearch = if class == "miri" { r.range(1, 2) } else { r.range(1, 3) };
    let mut sc = ThreadScenario {
        prop: "C17".into(),
        origin: format!("{} seed={} idx={}", class, seed, idx),
        searchers: Vec::new(),
        fixed_hays: Vec::new(),
        threads: Vec::new(),
        slots: 0,
        policy: Policy::Random,
        sched_seed: r.next_u64(),
        density: 1,
        change_points: Vec::new(),
        stall: None,
        decisions: None,
    };
    let long_patterns = class != "miri" && r.chance(1, 10);
    for i in 0..nsearch {
        let mut s = gen_searcher(r, &pal, class != "miri");
        if i == 0 {
            // the first searcher always supports stream search
            s.packed = false;
            s.opts.match_kind = MKind::Standard;
            s.patterns.retain(|p| !p.is_empty());
            if s.patterns.is_empty() {
                s.patterns.push(vec![pal[0]]);
            }
        }
        if i == 0 && class != "miri" && long_patterns {
            // a searcher with a long pattern (>= 1 KiB): stream searches with the
            // shipped capacity formula, real rolls, buffers sized from pattern lengths
            // (single-client histories rarely get a pattern at / above the default 64 KiB
            // buffer size: state sized by an earlier, ordinary stream search)
            let l = if class == "hist" && r.chance(1, 6) {
                *r.pick(&[65536usize, 65537, 70000])
            } else {
                *r.pick(&[1024usize, 1100, 1500, 2048, 4096])
            };
            let long: Vec<u8> = (0..l).map(|_| *r.pick(&pal)).collect();
            s.patterns.truncate(2);
            s.patterns.insert(r.below(s.patterns.len() + 1), long);
            if s.opts.surface == Surface::Dfa {
                s.opts.surface = Surface::Top;
            }
            if s.opts.kind == Kind::Dfa || s.opts.kind == Kind::Auto {
                // (Auto would pick a DFA with thousands of states: every fresh
                // reference build would cost tens of milliseconds)
                s.opts.kind = *r.pick(&[Kind::Noncontiguous, Kind::Contiguous]);
            }
        }
        if class == "miri" {
            // keep interpretation cost down: few short patterns, no DFA tables
            s.patterns.truncate(4);
            for p in s.patterns.iter_mut() {
                p.truncate(5);
            }
            if s.opts.surface == Surface::Dfa {
                s.opts.surface = Surface::Contiguous;
            }
            if s.opts.kind == Kind::Dfa {
                s.opts.kind = Kind::Contiguous;
            }
            if s.opts.kind == Kind::Auto && !r.chance(1, 4) {
                s.opts.kind = Kind::Noncontiguous;
            }
        }
        sc.searchers.push(s);
    }
    // searchers with many patterns are expensive to rebuild for every reference operation
    let many_patterns = sc.searchers.iter().any(|s| s.patterns.len() > 12);
    if many_patterns {
        for s in sc.searchers.iter_mut() {
            if s.patterns.len() > 12 {
                if s.opts.surface == Surface::Dfa {
                    s.opts.surface = Surface::Top;
                }
                if s.opts.kind == Kind::Dfa {
                    s.opts.kind = Kind::Auto;
                }
            }
        }
    }
    let maxhay = if class == "miri" { 64 } else { 200 };
    let big_hay = class != "miri" && !long_patterns && r.chance(1, 15);
    let nh = r.range(3, 5);
    for i in 0..nh {
        if i > 0 && r.chance(1, 3) {
            // same length as an earlier one, one byte changed (collides in a weak memo key)
            let mut h = sc.fixed_hays[r.below(i)].clone();
            if h.len() > 2 {
                let k = r.range(1, h.len() - 2);
                h[k] = *r.pick(&pal);
            }
            sc.fixed_hays.push(h);
            continue;
        }
        let spec = &sc.searchers[r.below(nsearch)];
        let pats: Vec<Vec<u8>> = spec.patterns.iter().filter(|p| !p.is_empty()).cloned().collect();
        let pats = if pats.is_empty() { vec![vec![pal[0]]] } else { pats };
        let target = match r.below(8) {
            0 => 0,
            1 => r.range(1, 8),
            _ => r.range(8, maxhay),
        };
        let mut planted = Vec::new();
        let h = gen_stream(r, &pal, &pats, target, spec.opts.case_insensitive, &mut planted);
        sc.fixed_hays.push(h);
    }
    if big_hay {
        // one haystack of 20-80 KB (length thresholds inside prefilters / packed searchers)
        let spec = &sc.searchers[r.below(nsearch)];
        let pats: Vec<Vec<u8>> = spec.patterns.iter().filter(|p| !p.is_empty()).cloned().collect();
        let pats = if pats.is_empty() { vec![vec![pal[0]]] } else { pats };
        let target = r.range(20_000, 80_000);
        let mut planted = Vec::new();
        let widepal: Vec<u8> = pal.iter().cloned().chain(b"xyz ".iter().cloned()).collect();
        let h = gen_stream(r, &widepal, &pats, target, spec.opts.case_insensitive, &mut planted);
        sc.fixed_hays.push(h);
        // a sparse pair of equal length: kilobytes of filler that occurs in no pattern
        // (long skips inside prefilters), one occurrence late in the first haystack and
        // early in the second; through a reused buffer they share one address
        let filler = *b"._- #".iter().find(|b| !pats.iter().any(|p| p.contains(b))).unwrap_or(&b'.');
        let len = r.range(6_000, 40_000);
        let p = r.pick(&pats).clone();
        let mut a = vec![filler; len];
        let mut b = vec![filler; len];
        if p.len() < len {
            let late = len - p.len() - r.below(200.min(len - p.len()));
            let early = r.below(200.min(len - p.len()));
            a[late..late + p.len()].copy_from_slice(&p);
            b[early..early + p.len()].copy_from_slice(&p);
            if r.chance(1, 2) {
                b[late..late + p.len()].copy_from_slice(&p);
            }
        }
        sc.fixed_hays.push(a);
        sc.fixed_hays.push(b);
    }
    if long_patterns {
        let pats: Vec<Vec<u8>> = sc.searchers[0].patterns.clone();
        let maxl = pats.iter().map(|p| p.len()).max().unwrap_or(1);
        let mut planted = Vec::new();
        let target = r.range(maxl, 3 * maxl);
        let mut h = gen_stream(r, &pal, &pats, target, false, &mut planted);
        let longp = pats.iter().max_by_key(|p| p.len()).unwrap().clone();
        if h.len() >= longp.len() {
            let at = r.below(h.len() - longp.len() + 1);
            h[at..at + longp.len()].copy_from_slice(&longp);
        }
        sc.fixed_hays.push(h);
    }
    let (nthreads, ops_lo, ops_hi) = match class {
        // mostly short histories; some long and a few very long ones on the same
        // long-lived searcher (adaptive heuristics / counters with thresholds)
        // long-pattern scenarios carry kilobytes per operation: keep the scripts short
        "hist" if long_patterns || big_hay || many_patterns => (1, 8, 30),
        "hist" => match r.weighted(&[80, 15, 5]) {
            0 => (1, 12, 40),
            1 => (1, 100, 300),
            _ => (1, 600, 1500),
        },
        "miri" => (r.range(2, 3), 1, 3),
        _ => {
            if r.chance(1, 10) && !long_patterns && !big_hay && !many_patterns {
                (r.range(2, 3), 20, 60)
            } else if r.chance(1, 12) {
                (r.range(5, 6), 2, 5)
            } else {
                (r.range(2, 4), 2, 8)
            }
        }
    };
    for _ in 0..nthreads {
        let n = r.range(ops_lo, ops_hi);
        let ops: Vec<Op> = (0..n).map(|_| gen_op(r, &sc, &pal, 0)).collect();
        sc.threads.push(ops);
    }
    if class == "hist" {
        // "wear, then probe": after the random history every searcher is probed with
        // the plain search kinds (earliest / leftmost, iterator, is_match) over every
        // scenario-owned haystack, so that state flipped by the history (adaptive
        // heuristics, thresholds) meets a search whose answer depends on it
        let mut probes = Vec::new();
        for s in 0..sc.searchers.len() {
            for h in 0..sc.fixed_hays.len() {
                if sc.fixed_hays[h].len() > 4096 {
                    continue;
                }
                let q = |earliest: bool| Search { s, hay: Hay::Fixed(h), span: None, anchored: false, earliest };
                probes.push(Op::Find(q(true)));
                probes.push(Op::Find(q(false)));
                if !sc.searchers[s].packed {
                    probes.push(Op::IsMatch(q(false)));
                }
                probes.push(Op::Iter { kind: IterKind::Find, q: q(false), limit: None });
            }
        }
        sc.threads[0].extend(probes);
    }
    // handoff pairs: an iterator started on one thread, drained on another
    let pairs = if class == "hist" { r.below(3) } else if r.chance(2, 5) { r.range(1, 2) } else { 0 };
    for _ in 0..pairs {
        let slot = sc.slots;
        sc.slots += 1;
        let s = r.below(nsearch);
        let src = gen_src(r, &sc, &pal, s, true, false);
        let first = r.below(4);
        let ta = r.below(nthreads);
        let tb = if nthreads > 1 { (ta + 1 + r.below(nthreads - 1)) % nthreads } else { ta };
        // a producer never waits before producing (no wait-for cycles):
        // every StartIter precedes all ResumeIters of its thread
        let first_resume = sc.threads[ta]
            .iter()
            .position(|o| matches!(o, Op::ResumeIter { .. }))
            .unwrap_or(sc.threads[ta].len());
        let pa = r.below(first_resume + 1);
        sc.threads[ta].insert(pa, Op::StartIter { slot, src, first });
        // ... and every ResumeIter follows all StartIters of its thread
        let after_last_start = sc.threads[tb]
            .iter()
            .rposition(|o| matches!(o, Op::StartIter { .. }))
            .map(|i| i + 1)
            .unwrap_or(0);
        let pb = r.range(after_last_start, sc.threads[tb].len());
        sc.threads[tb].insert(pb, Op::ResumeIter { slot });
    }
    if class == "miri" {
        // the shipped 64 KiB roll buffer (allocation, scribbling) is far too
        // expensive to interpret: always use a small capacity here
        fn fix_src(src: &mut IterSrc) {
            if let IterSrc::Stream(p) = src {
                if p.sc.spare.is_none() || p.sc.spare.unwrap() > 8 {
                    p.sc.spare = Some(2);
                }
            }
        }
        fn fix(op: &mut Op) {
            match op {
                Op::Stream(p) => {
                    if p.sc.spare.is_none() || p.sc.spare.unwrap() > 8 {
                        p.sc.spare = Some(2);
                    }
                }
                Op::Interleave2 { a, b } => {
                    fix_src(a);
                    fix_src(b);
                }
                Op::WithClone(inner) => fix(inner),
                Op::OrphanClone(inner) => {
                    // a third build per op is too expensive to interpret
                    fix(inner);
                    *op = Op::WithClone(inner.clone());
                }
                Op::StartIter { src, .. } => fix_src(src),
                _ => {}
            }
        }
        for t in sc.threads.iter_mut() {
            for op in t.iter_mut() {
                fix(op);
            }
        }
    }
    if class != "miri" && r.chance(1, 6) {
        // every stream operation of this scenario runs with the shipped capacity computation
        // (the capacity hook hides whatever a tree under test does to that computation, e.g.
        // sizing the buffer from an earlier search on the same searcher or thread)
        for t in sc.threads.iter_mut() {
            for op in t.iter_mut() {
                visit_parts(op, &mut |p| p.sc.spare = None);
            }
        }
    }
    if class != "miri" && !long_patterns && !big_hay && !many_patterns && r.chance(1, 12) {
        utf8ify(&mut sc, r, &pal);
    }
    // scheduling policy
    if r.chance(2, 5) {
        sc.policy = Policy::Pct;
        let d = *r.pick(&[1usize, 2, 3, 5]);
        let horizon = *r.pick(&[50usize, 200, 800, 3000]);
        sc.change_points = (0..d).map(|_| r.range(1, horizon) as u64).collect();
        sc.change_points.sort();
    } else {
        sc.policy = Policy::Random;
        sc.density = if long_patterns || big_hay {
            // kilobytes per operation: a context switch (a real thread hand-off)
            // at every few yield points would take seconds per run
            *r.pick(&[64u64, 256, 1024])
        } else {
            *r.pick(&[1u64, 1, 2, 4, 8, 16, 64])
        };
    }
    if nthreads > 1 && r.chance(3, 20) {
        sc.stall = Some((r.below(nthreads), r.range(1, 200) as u64));
    }
    sc
}
