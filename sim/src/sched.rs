//! Scheduler seam. Filled in by threadsim; with no scheduler installed on the
//! calling thread every yield is a no-op.

pub const SEAM_READ: u32 = 100;
pub const SEAM_WRITE: u32 = 101;
pub const SEAM_CLOSURE: u32 = 102;
pub const SEAM_OP: u32 = 103;

#[inline]
pub fn seam_yield(site: u32) {
    crate::threadsim::yield_point(site);
}
