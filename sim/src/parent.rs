//! Parent process: splits the run-index space over worker processes,
//! aggregates, minimises + replays failures in fresh processes, prints
//! VIOLATION / KNOWN-FINDING lines and writes the evidence file.

use crate::scenario::StreamScenario;
use crate::streamdrv::{self, Failure, Job, WorkerOut};
use crate::streammin;
use crate::streamsim;
use crate::threadsim;
use serde::{Deserialize, Serialize};
use std::collections::{BTreeMap, HashSet};
use std::io::Write;
use std::process::{Command, Stdio};
use std::sync::atomic::{AtomicU64, Ordering};
use std::sync::{Arc, Mutex};
use std::time::{Duration, Instant};

pub const DEFAULT_SEED: u64 = 20260927;

pub fn root() -> String {
    std::env::var("VERIF_ROOT").unwrap_or_else(|_| "/verif".to_string())
}
fn out_dir() -> String {
    std::env::var("VERIF_OUT").unwrap_or_else(|_| format!("{}/out", root()))
}
fn evidence_dir() -> String {
    std::env::var("VERIF_EVIDENCE_DIR").unwrap_or_else(|_| format!("{}/evidence", root()))
}
pub fn seed() -> u64 {
    std::env::var("VERIF_SEED").ok().and_then(|s| s.trim().parse().ok()).unwrap_or(DEFAULT_SEED)
}
fn workers() -> usize {
    std::env::var("VERIF_WORKERS").ok().and_then(|s| s.parse().ok()).unwrap_or(16)
}
fn scale() -> f64 {
    std::env::var("VERIF_SCALE").ok().and_then(|s| s.parse().ok()).unwrap_or(1.0)
}

#[derive(Serialize, Deserialize, Clone, Debug)]
pub struct JobSpec {
    pub engine: String,
    pub prop: String,
    pub seed: u64,
    pub class: String,
    pub from: u64,
    pub to: u64,
    pub want_samples: usize,
}

#[derive(Serialize, Deserialize, Clone, Debug)]
pub struct ReplayFile {
    pub engine: String,
    pub property: String,
    pub class: String,
    pub detail: String,
    pub seed: u64,
    pub scenario: serde_json::Value,
    #[serde(default)]
    pub history: Vec<String>,
    #[serde(default)]
    pub note: String,
}

fn exe() -> std::path::PathBuf {
    std::env::current_exe().expect("current_exe")
}

// ---------------------------------------------------------------- worker

static PROGRESS: AtomicU64 = AtomicU64::new(u64::MAX);
static PROGRESS_TICK: AtomicU64 = AtomicU64::new(0);

/// Liveness tick for long single runs (keeps the hang watchdog quiet while progress is real).
pub fn tick() {
    PROGRESS_TICK.fetch_add(1, Ordering::Relaxed);
}

pub fn worker(job_json: &str) -> i32 {
    let spec: JobSpec = match serde_json::from_str(job_json) {
        Ok(s) => s,
        Err(e) => {
            eprintln!("bad job: {}", e);
            return 2;
        }
    };
    // watchdog: a run that makes no seam call cannot be interrupted from
    // inside; report the index and leave the process.
    let hang_secs: u64 = std::env::var("VERIF_HANG_SECS").ok().and_then(|s| s.parse().ok()).unwrap_or(60);
    std::thread::spawn(move || {
        let mut last = (u64::MAX, 0u64);
        let mut since = Instant::now();
        loop {
            std::thread::sleep(Duration::from_millis(500));
            let cur = (PROGRESS.load(Ordering::Relaxed), PROGRESS_TICK.load(Ordering::Relaxed));
            if cur != last {
                last = cur;
                since = Instant::now();
            } else if since.elapsed().as_secs() >= hang_secs && cur.0 != u64::MAX {
                println!("{{\"hang\": {}}}", cur.0);
                std::process::exit(3);
            }
        }
    });
    let progress = |idx: u64| {
        PROGRESS.store(idx, Ordering::Relaxed);
        PROGRESS_TICK.fetch_add(1, Ordering::Relaxed);
    };
    let out: WorkerOut = match spec.engine.as_str() {
        "stream" => streamdrv::run_job(
            &Job {
                prop: spec.prop.clone(),
                seed: spec.seed,
                class: spec.class.clone(),
                from: spec.from,
                to: spec.to,
                want_samples: spec.want_samples,
            },
            &progress,
        ),
        "thread" => threadsim::run_job(&spec, &progress),
        other => {
            eprintln!("unknown engine {}", other);
            return 2;
        }
    };
    PROGRESS.store(u64::MAX, Ordering::Relaxed);
    let mut out = out;
    for f in out.failures.iter_mut() {
        f.job_from = spec.from;
    }
    let spill = |v: &mut Vec<u64>, tag: &str| -> Option<String> {
        if v.len() <= 20_000 {
            return None;
        }
        let dir = format!("{}/tmp", out_dir());
        let _ = std::fs::create_dir_all(&dir);
        let path = format!("{}/{}-{}-{}-{}.bin", dir, std::process::id(), spec.class.replace('#', "_"), spec.from, tag);
        let mut bytes = Vec::with_capacity(v.len() * 8);
        for x in v.iter() {
            bytes.extend_from_slice(&x.to_le_bytes());
        }
        if std::fs::write(&path, bytes).is_ok() {
            v.clear();
            Some(path)
        } else {
            None
        }
    };
    out.nontrivial_file = spill(&mut out.nontrivial, "nt");
    out.signatures_file = spill(&mut out.signatures, "sig");
    println!("{}", serde_json::to_string(&out).unwrap());
    0
}

// ---------------------------------------------------------------- pool

#[derive(Debug)]
enum JobResult {
    Ok(WorkerOut),
    Hang(u64),
    Crash(String),
}

fn run_child(spec: &JobSpec) -> JobResult {
    let js = serde_json::to_string(spec).unwrap();
    let out = Command::new(exe())
        .arg("worker")
        .arg(&js)
        .stdin(Stdio::null())
        .stderr(Stdio::piped())
        .output();
    let out = match out {
        Ok(o) => o,
        Err(e) => return JobResult::Crash(format!("spawn failed: {}", e)),
    };
    let stdout = String::from_utf8_lossy(&out.stdout);
    if out.status.code() == Some(3) {
        for line in stdout.lines() {
            if let Ok(v) = serde_json::from_str::<serde_json::Value>(line) {
                if let Some(i) = v.get("hang").and_then(|x| x.as_u64()) {
                    return JobResult::Hang(i);
                }
            }
        }
    }
    if !out.status.success() {
        let err = String::from_utf8_lossy(&out.stderr);
        return JobResult::Crash(format!(
            "worker {:?} [{},{}) died: status {:?}; stderr tail: {}",
            spec.class,
            spec.from,
            spec.to,
            out.status,
            err.chars().rev().take(400).collect::<String>().chars().rev().collect::<String>()
        ));
    }
    match stdout.lines().last().map(serde_json::from_str::<WorkerOut>) {
        Some(Ok(w)) => JobResult::Ok(w),
        other => JobResult::Crash(format!("unparsable worker output: {:?}", other.map(|r| r.err()))),
    }
}

fn run_pool(specs: Vec<JobSpec>, nworkers: usize) -> Vec<(JobSpec, JobResult)> {
    let queue = Arc::new(Mutex::new(specs.into_iter().rev().collect::<Vec<_>>()));
    let results = Arc::new(Mutex::new(Vec::new()));
    let mut handles = Vec::new();
    for _ in 0..nworkers {
        let q = queue.clone();
        let r = results.clone();
        handles.push(std::thread::spawn(move || loop {
            let spec = match q.lock().unwrap().pop() {
                Some(s) => s,
                None => break,
            };
            let res = run_child(&spec);
            r.lock().unwrap().push((spec, res));
        }));
    }
    for h in handles {
        h.join().unwrap();
    }
    let mut v = std::mem::take(&mut *results.lock().unwrap());
    // deterministic order regardless of completion order
    v.sort_by(|a, b| (a.0.class.clone(), a.0.from).cmp(&(b.0.class.clone(), b.0.from)));
    v
}

// ---------------------------------------------------------------- plans

pub struct ClassPlan {
    pub class: &'static str,
    pub total: u64,
}

fn plan(prop: &str, tier: &str) -> Vec<ClassPlan> {
    let thorough = tier == "thorough";
    let s = scale();
    let n = |q: u64, t: u64| -> u64 { (((if thorough { t } else { q }) as f64) * s).ceil() as u64 };
    match prop {
        "C07" => vec![
            ClassPlan { class: "small", total: n(1_200_000, 40_000_000) },
            ClassPlan { class: "big", total: n(1_600, 60_000) },
            // periodic streams beyond 4 GiB (absolute-offset truncation); thorough only
            ClassPlan { class: "huge", total: if thorough { 4 } else { 0 } },
        ],
        "C08" => vec![
            ClassPlan { class: "small", total: n(800_000, 30_000_000) },
            ClassPlan { class: "big", total: n(1_200, 40_000) },
            ClassPlan { class: "huge", total: if thorough { 4 } else { 0 } },
        ],
        "C18" => vec![
            ClassPlan { class: "small", total: n(60_000, 3_000_000) },
            ClassPlan { class: "big", total: n(160, 6_000) },
        ],
        "C17" => threadsim::plan(thorough, s),
        _ => vec![],
    }
}

fn engine_of(prop: &str) -> &'static str {
    if prop == "C17" {
        "thread"
    } else {
        "stream"
    }
}

/// Library-side hook points a reach probe is counted at (empty: counted at the seams or in
/// the harness).
fn probe_hook_sites(probe: &str) -> &'static [u32] {
    use aho_corasick::verif::site::*;
    match probe {
        "roll" | "run_with_2plus_rolls" | "production_capacity_run_with_roll" | "fault_right_after_roll" => &[BUF_ROLL],
        "multi_read_fill_below_min" => &[BUF_FILL_SHORT],
        "pre_roll_chunk" => &[STREAM_PRE_ROLL],
        "eof_chunk" => &[STREAM_EOF_CHUNK],
        "nonmatch_before_match_chunk" => &[STREAM_NONMATCH_BEFORE_MATCH],
        "switch_inside_search_loop" => &[FIND_FWD_BYTE, OVERLAPPING_BYTE],
        "switch_inside_stream_loop" => &[STREAM_BYTE, STREAM_NEXT],
        "switch_inside_nfa_failure_loop" => &[NFA_NONCONTIGUOUS_FAIL, NFA_CONTIGUOUS_FAIL],
        "packed_searcher_entered" => &[PACKED_FIND_IN],
        "prefilter_consulted" => &[FIND_FWD_PREFILTER, OVERLAPPING_PREFILTER],
        _ => &[],
    }
}

fn required_probes(prop: &str) -> Vec<&'static str> {
    match prop {
        "C07" => vec![
            "roll",
            "run_with_2plus_rolls",
            "multi_read_fill_below_min",
            "read_boundary_strictly_inside_reported_match",
            "match_spanning_3plus_reads",
            "read_filled_entire_free_buffer",
            "eof_with_fewer_than_min_bytes",
            "pre_roll_chunk",
            "production_capacity_run_with_roll",
            "max_length_match_cut_by_read",
            "soft_eof_run",
            "capacity_min_plus_1",
            "capacity_hook_honoured",
        ],
        "C08" => vec![
            "roll",
            "run_with_2plus_rolls",
            "multi_read_fill_below_min",
            "read_boundary_strictly_inside_reported_match",
            "pre_roll_chunk",
            "eof_chunk",
            "nonmatch_before_match_chunk",
            "production_capacity_run_with_roll",
            "short_write",
            "write_interrupted_noise",
            "closure_calls",
            "capacity_min_plus_1",
            "capacity_hook_honoured",
        ],
        "C18" => vec![
            "roll",
            "fault_at_first_read",
            "fault_right_after_roll",
            "fault_in_place_of_eof_read",
            "fault_while_partial_match_buffered",
            "write_fault_inside_closure",
            "write_fault_inside_nonmatch_chunk",
            "multi_fault_sequence",
            "polled_on_after_error",
            "capacity_hook_honoured",
        ],
        "C17" => threadsim::required_probes(),
        _ => vec![],
    }
}

// ---------------------------------------------------------------- known findings

/// One line of /verif/known_findings.txt.
///
///   open: property=<id> class=<class> [patterns=<hex>,<hex>..] [stream=<hex>] :: <what fails>
///   fixed: property=<id> <commit> <what failed>          (suppresses nothing)
#[derive(Clone, Debug)]
struct KnownFinding {
    status: String, // "open" | "fixed"
    property: String,
    class: String,
    /// identification by the minimised scenario's patterns and stream (hex),
    /// both optional; an absent field matches anything.
    patterns: Option<Vec<String>>,
    stream: Option<String>,
    what: String,
}

fn load_known() -> Vec<KnownFinding> {
    let p = format!("{}/known_findings.txt", root());
    let mut v = Vec::new();
    if let Ok(s) = std::fs::read_to_string(&p) {
        for line in s.lines() {
            let line = line.trim();
            if line.is_empty() || line.starts_with('#') {
                continue;
            }
            if let Some(rest) = line.strip_prefix("open:") {
                let (head, what) = match rest.split_once("::") {
                    Some((h, w)) => (h, w.trim().to_string()),
                    None => (rest, String::new()),
                };
                let mut k = KnownFinding {
                    status: "open".into(),
                    property: String::new(),
                    class: String::new(),
                    patterns: None,
                    stream: None,
                    what,
                };
                for tok in head.split_whitespace() {
                    if let Some((key, val)) = tok.split_once('=') {
                        match key {
                            "property" => k.property = val.to_string(),
                            "class" => k.class = val.to_string(),
                            "patterns" => k.patterns = Some(val.split(',').map(|x| x.to_string()).collect()),
                            "stream" => k.stream = Some(val.to_string()),
                            _ => {}
                        }
                    }
                }
                if !k.property.is_empty() && !k.class.is_empty() {
                    v.push(k);
                }
            }
            // "fixed:" lines are documentation only: they suppress nothing.
        }
    }
    v
}

fn known_match(k: &KnownFinding, prop: &str, class: &str, scenario: &serde_json::Value) -> bool {
    if k.status != "open" || k.property != prop || k.class != class {
        return false;
    }
    if let Some(p) = &k.patterns {
        let got: Vec<String> = scenario
            .get("patterns")
            .and_then(|x| x.as_array())
            .map(|a| a.iter().filter_map(|s| s.as_str().map(|s| s.to_string())).collect())
            .unwrap_or_default();
        if &got != p {
            return false;
        }
    }
    if let Some(s) = &k.stream {
        if scenario.get("stream").and_then(|x| x.as_str()) != Some(s.as_str()) {
            return false;
        }
    }
    true
}

// ---------------------------------------------------------------- run

fn write_replay(prop: &str, seed: u64, tag: &str, rf: &ReplayFile) -> String {
    let dir = format!("{}/replays", out_dir());
    let _ = std::fs::create_dir_all(&dir);
    let path = format!("{}/{}-{}-{}.json", dir, prop, seed, tag);
    std::fs::write(&path, serde_json::to_string_pretty(rf).unwrap()).expect("write replay");
    path
}

/// Re-execute a replay file in a fresh process; returns (exit code, class printed).
fn replay_fresh(path: &str, timeout: Duration) -> (Option<i32>, String) {
    let mut child = match Command::new(exe())
        .arg("replay")
        .arg(path)
        .arg("--quiet")
        .stdin(Stdio::null())
        .stdout(Stdio::piped())
        .stderr(Stdio::null())
        .spawn()
    {
        Ok(c) => c,
        Err(_) => return (None, String::new()),
    };
    // drain the child's output while it runs (a full pipe would block it)
    let out = child.stdout.take();
    let drain = std::thread::spawn(move || {
        let mut s = String::new();
        if let Some(mut o) = out {
            use std::io::Read;
            let _ = o.read_to_string(&mut s);
        }
        s
    });
    let mut drain = Some(drain);
    let start = Instant::now();
    loop {
        match child.try_wait() {
            Ok(Some(st)) => {
                let s = drain.take().map(|d| d.join().unwrap_or_default()).unwrap_or_default();
                let class = s
                    .lines()
                    .find_map(|l| l.strip_prefix("REPLAY class="))
                    .map(|x| x.split_whitespace().next().unwrap_or("").to_string())
                    .unwrap_or_default();
                let code = st.code();
                if code.is_none() {
                    return (Some(-1), "abort".into());
                }
                return (code, class);
            }
            Ok(None) => {
                if start.elapsed() > timeout {
                    let _ = child.kill();
                    let _ = child.wait();
                    return (Some(-2), "hang".into());
                }
                std::thread::sleep(Duration::from_millis(20));
            }
            Err(_) => return (None, String::new()),
        }
    }
}

pub fn run(prop: &str, tier: &str) -> i32 {
    let t0 = Instant::now();
    let seed = seed();
    println!("VERIF_SEED={} property={} tier={} workers={}", seed, prop, tier, workers());
    let classes = plan(prop, tier);
    if classes.is_empty() {
        eprintln!("unknown property {}", prop);
        return 2;
    }
    let engine = engine_of(prop);
    let nw = workers();
    let mut specs = Vec::new();
    for c in &classes {
        if c.total == 0 {
            continue;
        }
        let chunks = (nw as u64 * 4).min(c.total).max(1);
        let per = c.total.div_ceil(chunks);
        let mut from = 0;
        let mut first = true;
        while from < c.total {
            let to = (from + per).min(c.total);
            specs.push(JobSpec {
                engine: engine.to_string(),
                prop: prop.to_string(),
                seed,
                class: c.class.to_string(),
                from,
                to,
                want_samples: if first { 3 } else { 0 },
            });
            first = false;
            from = to;
        }
    }
    // in-batch determinism proof: the same small range twice, in two processes
    let det_n = 200.min(classes[0].total);
    for tag in ["det-a", "det-b"] {
        specs.push(JobSpec {
            engine: engine.to_string(),
            prop: prop.to_string(),
            seed,
            class: format!("{}#{}", classes[0].class, tag),
            from: 0,
            to: det_n,
            want_samples: 0,
        });
    }
    let results = run_pool(specs, nw);

    // ---- aggregate
    let mut agg = WorkerOut::default();
    let mut nontrivial: Vec<u64> = Vec::new();
    let mut signatures: Vec<u64> = Vec::new();
    let slurp = |path: &Option<String>, into: &mut Vec<u64>| {
        if let Some(p) = path {
            if let Ok(b) = std::fs::read(p) {
                for c in b.chunks_exact(8) {
                    into.push(u64::from_le_bytes(c.try_into().unwrap()));
                }
            }
            let _ = std::fs::remove_file(p);
        }
    };
    let mut failures: Vec<Failure> = Vec::new();
    let mut harness_errors: Vec<String> = Vec::new();
    let mut det: Vec<u64> = Vec::new();
    let mut crashes: Vec<(JobSpec, String)> = Vec::new();
    let mut hangs: Vec<(JobSpec, u64)> = Vec::new();
    for (spec, res) in results {
        let is_det = spec.class.contains('#');
        match res {
            JobResult::Ok(w) => {
                if is_det {
                    det.push(w.range_hash);
                    for f in [&w.nontrivial_file, &w.signatures_file].into_iter().flatten() {
                        let _ = std::fs::remove_file(f);
                    }
                    continue;
                }
                agg.scenarios += w.scenarios;
                agg.execs += w.execs;
                agg.invalid += w.invalid;
                agg.events += w.events;
                agg.stream_bytes += w.stream_bytes;
                agg.range_hash = agg.range_hash.wrapping_add(w.range_hash);
                if agg.sites.len() < w.sites.len() {
                    agg.sites.resize(w.sites.len(), 0);
                }
                for (i, x) in w.sites.iter().enumerate() {
                    agg.sites[i] += x;
                }
                for (k, v) in w.probes {
                    *agg.probes.entry(k).or_insert(0) += v;
                }
                for (k, v) in w.fired {
                    *agg.fired.entry(k).or_insert(0) += v;
                }
                for (k, v) in w.classes {
                    *agg.classes.entry(k).or_insert(0) += v;
                }
                for (k, v) in w.config_counts {
                    *agg.config_counts.entry(k).or_insert(0) += v;
                }
                agg.failure_count += w.failure_count;
                failures.extend(w.failures);
                nontrivial.extend(w.nontrivial);
                signatures.extend(w.signatures);
                slurp(&w.nontrivial_file, &mut nontrivial);
                slurp(&w.signatures_file, &mut signatures);
                if spec.class == "small" || spec.class == "conc" {
                    let mut s = w.samples;
                    s.extend(std::mem::take(&mut agg.samples));
                    agg.samples = s;
                } else {
                    agg.samples.extend(w.samples);
                }
                for s in w.invalid_samples {
                    if agg.invalid_samples.len() < 3 {
                        agg.invalid_samples.push(s);
                    }
                }
            }
            JobResult::Hang(idx) => {
                if !is_det {
                    hangs.push((spec, idx));
                }
            }
            JobResult::Crash(msg) => {
                if !is_det {
                    crashes.push((spec, msg));
                }
            }
        }
    }
    agg.samples.truncate(3);
    nontrivial.sort_unstable();
    nontrivial.dedup();
    signatures.sort_unstable();
    signatures.dedup();
    if det.len() == 2 && det[0] != det[1] {
        harness_errors.push(format!(
            "determinism self-check failed: the same {} runs hashed {:#x} and {:#x} in two processes",
            det_n, det[0], det[1]
        ));
    }

    // ---- failures: minimise, replay in a fresh process, report
    let known = load_known();
    let mut violations = 0usize;
    let mut known_hits = 0usize;
    let mut reported_classes: HashSet<String> = HashSet::new();
    // prefer small-class failures (they minimise best), then the lowest index
    failures.sort_by(|a, b| {
        (a.gen_class != "small", a.idx, a.class.clone()).cmp(&(b.gen_class != "small", b.idx, b.class.clone()))
    });
    let _ = std::fs::create_dir_all(format!("{}/replays", out_dir()));
    for f in &failures {
        if reported_classes.contains(&f.class) || reported_classes.len() >= 4 {
            continue;
        }
        reported_classes.insert(f.class.clone());
        let raw = ReplayFile {
            engine: engine.to_string(),
            property: prop.to_string(),
            class: f.class.clone(),
            detail: f.detail.clone(),
            seed,
            scenario: f.scenario.clone(),
            history: vec![],
            note: format!("unminimised; generator class {} index {}", f.gen_class, f.idx),
        };
        let raw_path = write_replay(prop, seed, &format!("{}-{}-raw", f.class, f.idx), &raw);
        let min_path = raw_path.replace("-raw.json", ".json");
        let st = Command::new(exe())
            .arg("minimise")
            .arg(&raw_path)
            .arg(&min_path)
            .stdin(Stdio::null())
            .stdout(Stdio::null())
            .stderr(Stdio::null())
            .status();
        let use_path = if matches!(st, Ok(s) if s.success()) && std::path::Path::new(&min_path).exists() {
            min_path.clone()
        } else {
            raw_path.clone()
        };
        let (code, class) = replay_fresh(&use_path, Duration::from_secs(900));
        let (final_path, ok) = if code == Some(1) && class == f.class {
            (use_path.clone(), true)
        } else if use_path != raw_path {
            let (c2, cl2) = replay_fresh(&raw_path, Duration::from_secs(900));
            (raw_path.clone(), c2 == Some(1) && cl2 == f.class)
        } else {
            (raw_path.clone(), false)
        };
        // The scenario alone does not reproduce: the failure may depend on what
        // ran before it in the same process (hidden state across operations).
        // Replay a window of run indices ending in the failing one instead.
        let (final_path, ok) = if ok {
            (final_path, ok)
        } else {
            match range_replay(engine, prop, seed, f) {
                Some(p) => (p, true),
                None => (final_path, false),
            }
        };
        if !ok {
            harness_errors.push(format!(
                "failure of class {} at index {} did not reproduce from its replay file {} (simulator bug, not a finding)",
                f.class, f.idx, final_path
            ));
            continue;
        }
        let scen: serde_json::Value = std::fs::read_to_string(&final_path)
            .ok()
            .and_then(|s| serde_json::from_str::<ReplayFile>(&s).ok())
            .map(|r| r.scenario)
            .unwrap_or(serde_json::Value::Null);
        if let Some(k) = known.iter().find(|k| known_match(k, prop, &f.class, &scen)) {
            println!("KNOWN-FINDING: property={} {} ({})", prop, k.what, f.class);
            known_hits += 1;
            continue;
        }
        println!("violation class={} generator={} index={} detail: {}", f.class, f.gen_class, f.idx, f.detail);
        println!("VIOLATION property={} replay={}", prop, final_path);
        violations += 1;
    }
    // worker crashes / hangs: locate the index by bisection, report unminimised
    for (spec, msg) in &crashes {
        match bisect_crash(spec) {
            Some((idx, path)) => {
                println!("violation class=abort generator={} index={} detail: worker process died ({})", spec.class, idx, msg);
                println!("VIOLATION property={} replay={}", prop, path);
                violations += 1;
            }
            None => harness_errors.push(format!("worker died but the crash did not reproduce: {}", msg)),
        }
    }
    for (spec, idx) in &hangs {
        let path = write_generated_replay(spec, *idx, "hang", "no progress for the watchdog interval (no seam call, no return)");
        println!("violation class=hang generator={} index={} detail: run made no progress", spec.class, idx);
        println!("VIOLATION property={} replay={}", prop, path);
        violations += 1;
    }

    // ---- reach: a probe stuck at zero hollows the check out → harness error
    let mut zero: Vec<&str> = Vec::new();
    let mut hook_notes: Vec<String> = Vec::new();
    if violations == 0 && known_hits == 0 {
        for p in required_probes(prop) {
            if agg.probes.get(p).cloned().unwrap_or(0) == 0 {
                // A probe that is counted at hook points inside the library cannot move when
                // the tree under test no longer has those points (a rewrite dropped or moved
                // the guarded `verif::point` lines): none of them was reached in the whole
                // batch although the workload that reaches them ran. That says nothing about
                // the workload, so the probe is judged by its seam-level counterpart
                // "<probe>@seam" where one exists (inferred from read boundaries, bytes
                // delivered and the matches reported) and is otherwise recorded as not
                // observable on this tree. On a tree that has the hook points (the unchanged
                // tree does) the gate is as strict as before.
                let sites = probe_hook_sites(p);
                let hooks_absent = !sites.is_empty()
                    && sites.iter().all(|&s| agg.sites.get(s as usize).cloned().unwrap_or(0) == 0);
                if hooks_absent {
                    let alt = format!("{}@seam", p);
                    match agg.probes.get(&alt) {
                        Some(&n) if n > 0 => {
                            hook_notes.push(format!("{}: hook point(s) {:?} not reached by any run (absent from the tree under test); seam-level counterpart {} = {}", p, sites, alt, n));
                            continue;
                        }
                        Some(_) => {}
                        None => {
                            hook_notes.push(format!("{}: hook point(s) {:?} not reached by any run (absent from the tree under test); no seam-level counterpart, not observable on this tree", p, sites));
                            continue;
                        }
                    }
                }
                zero.push(p);
            }
        }
        for n in &hook_notes {
            println!("note: reach probe {}", n);
        }
        if !zero.is_empty() {
            harness_errors.push(format!("reach probes stuck at zero: {:?}", zero));
        }
        if agg.scenarios > 0 && agg.invalid * 2 > agg.scenarios {
            harness_errors.push(format!(
                "{} of {} scenarios could not be set up (e.g. {:?})",
                agg.invalid, agg.scenarios, agg.invalid_samples
            ));
        }
    }

    // ---- evidence
    let wall = t0.elapsed().as_secs_f64();
    let ev = evidence(prop, tier, seed, &agg, nontrivial.len(), signatures.len(), violations, known_hits, wall, &harness_errors, &hook_notes, det_n);
    let _ = std::fs::create_dir_all(evidence_dir());
    let evpath = format!("{}/{}.json", evidence_dir(), prop);
    let mut f = std::fs::File::create(&evpath).expect("evidence file");
    f.write_all(serde_json::to_string_pretty(&ev).unwrap().as_bytes()).unwrap();
    f.write_all(b"\n").unwrap();

    println!(
        "summary property={} scenarios={} executions={} seam_events={} distinct_nontrivial={} violations={} known={} invalid={} wall_s={:.1} runs_per_hour={:.0}",
        prop, agg.scenarios, agg.execs, agg.events, nontrivial.len(), violations, known_hits, agg.invalid, wall,
        agg.execs as f64 / wall.max(0.001) * 3600.0
    );
    if violations > 0 {
        return 1;
    }
    if !harness_errors.is_empty() {
        for e in &harness_errors {
            eprintln!("HARNESS-ERROR: {}", e);
            println!("HARNESS-ERROR: {}", e);
        }
        return 2;
    }
    0
}

/// Smallest window [from, idx] (doubling backwards from idx, bounded by the
/// worker job's first index) whose re-execution in one fresh process fails at
/// idx with the same class; written as a replay file of engine "<engine>-range".
fn range_replay(engine: &str, prop: &str, seed: u64, f: &Failure) -> Option<String> {
    let mut back: u64 = 1;
    loop {
        let from = f.idx.saturating_sub(back).max(f.job_from);
        let rf = ReplayFile {
            engine: format!("{}-range", engine),
            property: prop.to_string(),
            class: f.class.clone(),
            detail: f.detail.clone(),
            seed,
            scenario: serde_json::json!({"class": f.gen_class, "from": from, "to": f.idx + 1, "failing_index": f.idx,
                "failing_scenario": f.scenario}),
            history: vec![],
            note: "the failing scenario does not fail alone: it depends on the runs executed before it in the same process; this file replays the whole window of run indices".into(),
        };
        let path = write_replay(prop, seed, &format!("{}-{}-window", f.class, f.idx), &rf);
        let (code, class) = replay_fresh(&path, Duration::from_secs(900));
        if code == Some(1) && class == f.class {
            return Some(path);
        }
        if from == f.job_from {
            return None;
        }
        back *= 4;
    }
}

fn write_generated_replay(spec: &JobSpec, idx: u64, class: &str, detail: &str) -> String {
    let class_name = spec.class.split('#').next().unwrap_or("small").to_string();
    let scenario = if spec.engine == "stream" {
        let (sc, _) = streamdrv::gen_for(&spec.prop, &class_name, spec.seed, idx);
        serde_json::to_value(&sc).unwrap()
    } else {
        threadsim::gen_value(&spec.prop, &class_name, spec.seed, idx)
    };
    let rf = ReplayFile {
        engine: spec.engine.clone(),
        property: spec.prop.clone(),
        class: class.to_string(),
        detail: detail.to_string(),
        seed: spec.seed,
        scenario,
        history: vec![],
        note: format!("unminimised (process-level failure); generator class {} index {}", class_name, idx),
    };
    write_replay(&spec.prop, spec.seed, &format!("{}-{}", class, idx), &rf)
}

fn bisect_crash(spec: &JobSpec) -> Option<(u64, String)> {
    let (mut lo, mut hi) = (spec.from, spec.to);
    // invariant: running [lo, hi) crashes
    while hi - lo > 1 {
        let mid = lo + (hi - lo) / 2;
        let mut a = spec.clone();
        a.from = lo;
        a.to = mid;
        a.want_samples = 0;
        match run_child(&a) {
            JobResult::Crash(_) => {
                hi = mid;
            }
            _ => {
                let mut b = spec.clone();
                b.from = mid;
                b.to = hi;
                b.want_samples = 0;
                match run_child(&b) {
                    JobResult::Crash(_) => lo = mid,
                    _ => return None,
                }
            }
        }
    }
    let mut one = spec.clone();
    one.from = lo;
    one.to = lo + 1;
    if !matches!(run_child(&one), JobResult::Crash(_)) {
        return None;
    }
    let path = write_generated_replay(spec, lo, "abort", "the process executing this scenario died (abort / signal)");
    let (code, _) = replay_fresh(&path, Duration::from_secs(120));
    if code == Some(-1) || code == Some(1) {
        Some((lo, path))
    } else {
        None
    }
}

#[allow(clippy::too_many_arguments)]
fn evidence(
    prop: &str,
    tier: &str,
    seed: u64,
    agg: &WorkerOut,
    distinct_nontrivial: usize,
    distinct_signatures: usize,
    violations: usize,
    known_hits: usize,
    wall: f64,
    harness_errors: &[String],
    hook_notes: &[String],
    det_n: u64,
) -> serde_json::Value {
    let level = if prop == "C18" { "fault_enumeration" } else { "exploration" };
    let site_names = crate::streamsim::site_names();
    let mut sites = BTreeMap::new();
    for (i, n) in agg.sites.iter().enumerate() {
        if i < site_names.len() {
            sites.insert(site_names[i].to_string(), *n);
        }
    }
    let (rule, components, assumptions) = if prop == "C17" {
        threadsim::evidence_texts()
    } else {
        streamsim::evidence_texts(prop)
    };
    serde_json::json!({
        "property_id": prop,
        "tier": tier,
        "seed": seed,
        "level": level,
        "coverage": {
            "evaluations": agg.execs,
            "scenarios": agg.scenarios,
            "distinct_nontrivial": distinct_nontrivial,
            "distinct_scenario_signatures": distinct_signatures,
            "distinct_interleavings": if prop == "C17" { serde_json::json!(distinct_signatures) } else { serde_json::json!("n/a (single-threaded engine; schedules are read/write/fault schedules, counted in distinct_scenario_signatures)") },
            "distinct_measure": if prop == "C17" { "hash over every context switch (from-thread, site, to-thread) xor scenario hash" } else { "hash of (patterns, stream, capacity, read schedule, write schedule, options, op) [+ fault list for C18's distinct_nontrivial]" },
            "rule": rule,
            "samples": agg.samples,
            "exhaustive": false,
            "simulated_time_seam_events": agg.events,
            "stream_bytes_delivered": agg.stream_bytes,
            "executions_per_hour": (agg.execs as f64 / wall.max(0.001) * 3600.0) as u64,
            "faults_fired": agg.fired,
            "reach_probes": agg.probes,
            "library_sites_reached": sites,
            "configuration_mix": agg.config_counts,
            "violation_classes_seen": agg.classes,
            "scenarios_not_set_up": agg.invalid,
            "determinism_selfcheck": format!("first {} runs executed twice in two processes; event-log hashes {}", det_n,
                if harness_errors.iter().any(|e| e.contains("determinism")) { "DIFFER" } else { "equal" }),
            "event_log_hash": format!("{:#018x}", agg.range_hash),
            "components": components,
            "known_findings_hit": known_hits,
            "harness_errors": harness_errors,
            "reach_probe_notes": hook_notes,
        },
        "assumptions": assumptions,
        "wall_s": wall,
        "violations": violations,
    })
}

// ---------------------------------------------------------------- replay / minimise

pub fn replay(path: &str, verbose: bool) -> i32 {
    let s = match std::fs::read_to_string(path) {
        Ok(s) => s,
        Err(e) => {
            eprintln!("cannot read {}: {}", path, e);
            return 2;
        }
    };
    let rf: ReplayFile = match serde_json::from_str(&s) {
        Ok(r) => r,
        Err(e) => {
            eprintln!("bad replay file: {}", e);
            return 2;
        }
    };
    match rf.engine.as_str() {
        "stream" if rf.scenario.get("huge").is_some() => {
            let h = &rf.scenario["huge"];
            let (hs, hi, hr) = (h["seed"].as_u64().unwrap_or(0), h["idx"].as_u64().unwrap_or(0), h["reps"].as_u64().unwrap_or(1));
            let (v, matches, bytes) = if h["replace"].as_bool().unwrap_or(false) {
                streamdrv::huge_replace_run(hs, hi, hr)
            } else {
                streamdrv::huge_run(hs, hi, hr)
            };
            println!("  huge stream: {} matches, {} bytes delivered", matches, bytes);
            match v {
                Some(x) => {
                    println!("REPLAY class={} property={} detail: {}", x.class, rf.property, x.detail);
                    println!("VIOLATION property={} replay={}", rf.property, path);
                    1
                }
                None => {
                    println!("REPLAY held property={}", rf.property);
                    0
                }
            }
        }
        "stream" => {
            let sc: StreamScenario = match serde_json::from_value(rf.scenario.clone()) {
                Ok(s) => s,
                Err(e) => {
                    eprintln!("bad scenario: {}", e);
                    return 2;
                }
            };
            streamsim::silence_panics();
            let v = streamsim::exec(&sc, true);
            if verbose {
                let run = v.faulted.as_ref().or(v.calib.as_ref());
                if let Some(run) = run {
                    for (i, e) in run.events.iter().enumerate().take(300) {
                        println!("  [{:3}] {:?}", i, e);
                    }
                    if run.events.len() > 300 {
                        println!("  ... {} more events", run.events.len() - 300);
                    }
                }
            }
            if let Some(inv) = v.invalid {
                println!("REPLAY invalid: {}", inv);
                return 2;
            }
            match v.violation {
                Some(x) => {
                    println!("REPLAY class={} property={} detail: {}", x.class, rf.property, x.detail);
                    println!("VIOLATION property={} replay={}", rf.property, path);
                    1
                }
                None => {
                    println!("REPLAY held property={}", rf.property);
                    0
                }
            }
        }
        "thread" => threadsim::replay(&rf, path, verbose),
        "stream-range" | "thread-range" => {
            let eng = rf.engine.trim_end_matches("-range").to_string();
            let spec = JobSpec {
                engine: eng.clone(),
                prop: rf.property.clone(),
                seed: rf.seed,
                class: rf.scenario["class"].as_str().unwrap_or("small").to_string(),
                from: rf.scenario["from"].as_u64().unwrap_or(0),
                to: rf.scenario["to"].as_u64().unwrap_or(0),
                want_samples: 0,
            };
            let failing = rf.scenario["failing_index"].as_u64().unwrap_or(u64::MAX);
            let noop = |_i: u64| {};
            let out: WorkerOut = if eng == "stream" {
                streamdrv::run_job(
                    &Job { prop: spec.prop.clone(), seed: spec.seed, class: spec.class.clone(), from: spec.from, to: spec.to, want_samples: 0 },
                    &noop,
                )
            } else {
                threadsim::run_job(&spec, &noop)
            };
            match out.failures.iter().find(|f| f.idx == failing) {
                Some(f) => {
                    println!("REPLAY class={} property={} detail: (window {}..{}) {}", f.class, rf.property, spec.from, spec.to, f.detail);
                    println!("VIOLATION property={} replay={}", rf.property, path);
                    1
                }
                None => {
                    println!("REPLAY held property={} (window {}..{})", rf.property, spec.from, spec.to);
                    0
                }
            }
        }
        other => {
            eprintln!("unknown engine {}", other);
            2
        }
    }
}

pub fn minimise(inp: &str, outp: &str) -> i32 {
    let s = match std::fs::read_to_string(inp) {
        Ok(s) => s,
        Err(_) => return 2,
    };
    let mut rf: ReplayFile = match serde_json::from_str(&s) {
        Ok(r) => r,
        Err(_) => return 2,
    };
    match rf.engine.as_str() {
        "stream" if rf.scenario.get("huge").is_some() => {
            // nothing to shrink structurally: (seed, index, repetitions) is the scenario
            rf.note = "huge periodic stream; not minimised".into();
            std::fs::write(outp, serde_json::to_string_pretty(&rf).unwrap()).is_ok().then_some(0).unwrap_or(2)
        }
        "stream" => {
            let sc: StreamScenario = match serde_json::from_value(rf.scenario.clone()) {
                Ok(s) => s,
                Err(_) => return 2,
            };
            streamsim::silence_panics();
            let big = sc.stream.len() > 20_000;
            let (m, used) = streammin::minimise(&sc, &rf.class, if big { 120 } else { 5000 });
            let v = streamsim::exec(&m, true);
            if let Some(x) = &v.violation {
                rf.detail = x.detail.clone();
            }
            let run = v.faulted.as_ref().or(v.calib.as_ref());
            rf.history = run.map(|r| r.events.iter().take(400).map(|e| format!("{:?}", e)).collect()).unwrap_or_default();
            rf.scenario = serde_json::to_value(&m).unwrap();
            rf.note = format!("minimised with {} re-executions", used);
            std::fs::write(outp, serde_json::to_string_pretty(&rf).unwrap()).is_ok().then_some(0).unwrap_or(2)
        }
        "thread" => threadsim::minimise(&mut rf, outp),
        _ => 2,
    }
}

// ---------------------------------------------------------------- selfcheck

/// Determinism proof: n run indices per engine, executed twice each in
/// separate processes, once split over 1 worker and once over many, and the
/// order-independent event-log hashes compared.
pub fn selfcheck(n: u64) -> i32 {
    let base = seed();
    let nseeds: u64 = std::env::var("VERIF_SELFCHECK_SEEDS").ok().and_then(|s| s.parse().ok()).unwrap_or(4);
    println!("VERIF_SEED={} selfcheck n={} seeds={}", base, n, nseeds);
    let mut bad = 0;
    for k in 0..nseeds {
        bad += selfcheck_seed(base.wrapping_add(k.wrapping_mul(7919)), n);
    }
    if bad > 0 {
        2
    } else {
        0
    }
}

fn selfcheck_seed(seed: u64, n: u64) -> i32 {
    let mut bad = 0;
    for prop in ["C07", "C08", "C18", "C17"] {
        let engine = engine_of(prop);
        let class = plan(prop, "quick")[0].class;
        let n = if prop == "C18" { n / 10 } else { n }.max(16);
        let mk = |from: u64, to: u64| JobSpec {
            engine: engine.to_string(),
            prop: prop.to_string(),
            seed,
            class: class.to_string(),
            from,
            to,
            want_samples: 0,
        };
        let one = run_pool(vec![mk(0, n)], 1);
        let parts = 16u64;
        let per = n.div_ceil(parts);
        let many = run_pool((0..parts).map(|i| mk((i * per).min(n), ((i + 1) * per).min(n))).filter(|j| j.from < j.to).collect(), 16);
        let many5 = run_pool((0..5u64).map(|i| mk((i * n.div_ceil(5)).min(n), ((i + 1) * n.div_ceil(5)).min(n))).filter(|j| j.from < j.to).collect(), 3);
        let sum = |v: &Vec<(JobSpec, JobResult)>| -> Option<(u64, u64)> {
            let mut h = 0u64;
            let mut e = 0u64;
            for (_, r) in v {
                match r {
                    JobResult::Ok(w) => {
                        h = h.wrapping_add(w.range_hash);
                        e += w.execs;
                    }
                    _ => return None,
                }
            }
            Some((h, e))
        };
        let (a, b, c) = (sum(&one), sum(&many), sum(&many5));
        let ok = a.is_some() && a == b && b == c;
        println!("selfcheck seed={} {} engine={} runs={} executions={:?} hash_1proc={:x?} hash_16proc={:x?} hash_5proc={:x?} {}",
            seed, prop, engine, n, a.map(|x| x.1), a.map(|x| x.0), b.map(|x| x.0), c.map(|x| x.0), if ok { "DETERMINISTIC" } else { "DIVERGED" });
        if !ok {
            bad += 1;
        }
    }
    bad
}
