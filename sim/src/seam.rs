//! The simulated world of a stream operation: the only `Read`, `Write` and
//! replacement closure the library sees. All behaviour comes from the
//! explicit scenario; every seam call is recorded as an event.

use crate::rng::Hasher64;
use crate::scenario::{
    ClosureStep, ErrKind, Fault, ReadStep, StreamScenario, WriteStep,
};
use crate::sut::M;
use std::io;
use std::sync::{Arc, Mutex};

#[derive(Clone, Copy, Debug, PartialEq, Eq)]
pub enum RRet {
    Data(usize),
    Eof,
    SoftEof,
    /// The library offered an empty buffer; a reader can only answer Ok(0).
    EmptyBuf,
    Err(ErrKind),
    Panic,
}

#[derive(Clone, Copy, Debug, PartialEq, Eq)]
pub enum WRet {
    Accepted(usize),
    Interrupted,
    Err(ErrKind),
    Zero,
    Panic,
}

#[derive(Clone, Debug, PartialEq, Eq)]
pub enum Ev {
    Read { offered: usize, ret: RRet },
    Write { offered: usize, ret: WRet },
    /// The closure was called with this match; `bytes_ok` says whether the
    /// bytes handed in equal stream[start..end]; `failed` the injected error.
    Closure { m: M, bytes_ok: bool, failed: Option<ErrKind> },
    Flush,
    Item(M),
    ItemErr(std::io::ErrorKind),
    ItemNone,
    RetOk,
    RetErr(std::io::ErrorKind),
    Rejected,
}

fn kind_code(k: std::io::ErrorKind) -> u64 {
    // stable small codes for the kinds the simulator injects; anything else
    // hashes through its Debug text length + first bytes
    use std::io::ErrorKind as K;
    match k {
        K::Other => 1,
        K::Interrupted => 2,
        K::WouldBlock => 3,
        K::TimedOut => 4,
        K::UnexpectedEof => 5,
        K::ConnectionReset => 6,
        K::BrokenPipe => 7,
        K::InvalidData => 8,
        K::WriteZero => 9,
        other => {
            let s = format!("{:?}", other);
            let mut h = Hasher64::new();
            h.bytes(s.as_bytes());
            100 + (h.finish() >> 8)
        }
    }
}

impl Ev {
    pub fn hash_into(&self, h: &mut Hasher64) {
        // Stable, value-only hashing (no addresses, no formatting).
        fn m(h: &mut Hasher64, m: &M) {
            h.u64(m.0 as u64);
            h.u64(m.1 as u64);
            h.u64(m.2 as u64);
        }
        match self {
            Ev::Read { offered, ret } => {
                h.u64(1);
                h.u64(*offered as u64);
                match ret {
                    RRet::Data(n) => {
                        h.u64(1);
                        h.u64(*n as u64)
                    }
                    RRet::Eof => h.u64(2),
                    RRet::SoftEof => h.u64(3),
                    RRet::EmptyBuf => h.u64(4),
                    RRet::Err(k) => {
                        h.u64(5);
                        h.u64(k.idx() as u64)
                    }
                    RRet::Panic => h.u64(6),
                }
            }
            Ev::Write { offered, ret } => {
                h.u64(2);
                h.u64(*offered as u64);
                match ret {
                    WRet::Accepted(n) => {
                        h.u64(1);
                        h.u64(*n as u64)
                    }
                    WRet::Interrupted => h.u64(2),
                    WRet::Err(k) => {
                        h.u64(3);
                        h.u64(k.idx() as u64)
                    }
                    WRet::Zero => h.u64(4),
                    WRet::Panic => h.u64(5),
                }
            }
            Ev::Closure { m: mm, bytes_ok, failed } => {
                h.u64(3);
                m(h, mm);
                h.u64(*bytes_ok as u64);
                h.u64(failed.map(|k| k.idx() as u64 + 1).unwrap_or(0));
            }
            Ev::Flush => h.u64(4),
            Ev::Item(mm) => {
                h.u64(5);
                m(h, mm)
            }
            Ev::ItemErr(k) => {
                h.u64(6);
                h.u64(kind_code(*k))
            }
            Ev::ItemNone => h.u64(7),
            Ev::RetOk => h.u64(8),
            Ev::RetErr(k) => {
                h.u64(9);
                h.u64(kind_code(*k))
            }
            Ev::Rejected => h.u64(10),
        }
    }
}

pub const PANIC_MARK: &str = "simulated client crash";
pub const BUDGET_MARK: &str = "simulated seam-call budget exceeded";

/// Shared state of reader + writer + closure of one operation.
#[derive(Debug)]
pub struct World {
    pub stream: Arc<Vec<u8>>,
    pub pos: usize,
    pub reads: Vec<ReadStep>,
    pub read_idx: usize,
    pub default_read: ReadStep,
    pub scribble: bool,
    pub vectored: bool,
    pub read_calls: usize,
    pub last_read: Option<RRet>,
    /// Read error injected and not yet seen coming out of the library.
    pub pending_read_err: Option<ErrKind>,
    /// A seam call happened while a read error was still unsurfaced.
    pub seam_call_while_pending: bool,
    pub soft_eofs: usize,
    pub max_reads_per_boundary: usize,

    pub writes: Vec<WriteStep>,
    pub write_idx: usize,
    pub default_write: WriteStep,
    pub write_calls: usize,
    pub flush_calls: usize,
    pub accepted: Vec<u8>,
    /// First non-retryable write/closure error injected: (kind, accepted len at that time)
    pub fatal_write_err: Option<(std::io::ErrorKind, usize)>,
    /// Write calls made after a fatal write error.
    pub writes_after_fatal: usize,
    pub force_write_fail_next: Option<ErrKind>,

    pub closure_calls: usize,
    pub closure_log: Vec<(M, bool)>,
    /// Injected `Interrupted` read errors that the library retried by itself
    /// (tolerated: the idiomatic treatment of EINTR).
    pub retried_interrupted: usize,
    pub faults: Vec<Fault>,
    pub fired: Vec<usize>, // indices into faults that fired

    pub events: Vec<Ev>,
    pub record: bool,
    pub hash: Hasher64,
    pub n_events: u64,

    // reach probes derived at the seams
    pub probe_read_filled_buffer: u64,
    /// size of the buffer offered by the very first read call (the roll buffer's capacity)
    pub first_read_offer: Option<usize>,
    pub probe_short_write: u64,
    pub probe_write_interrupted: u64,
    /// hard cap on read calls (threadsim): exceeding it panics with BUDGET_MARK
    pub max_read_calls: Option<usize>,
    /// set while the replacement closure is running
    pub in_closure: bool,
    pub probe_write_fault_in_closure: u64,
    pub probe_write_fault_in_nonmatch: u64,
}

impl World {
    pub fn new(sc: &StreamScenario, stream: Arc<Vec<u8>>, record: bool) -> World {
        World {
            stream,
            pos: 0,
            reads: sc.reads.clone(),
            read_idx: 0,
            default_read: sc.default_read,
            scribble: sc.scribble,
            vectored: sc.vectored,
            read_calls: 0,
            last_read: None,
            pending_read_err: None,
            seam_call_while_pending: false,
            soft_eofs: 0,
            max_reads_per_boundary: 0,
            writes: sc.writes.clone(),
            write_idx: 0,
            default_write: sc.default_write,
            write_calls: 0,
            flush_calls: 0,
            accepted: Vec::new(),
            fatal_write_err: None,
            writes_after_fatal: 0,
            force_write_fail_next: None,
            closure_calls: 0,
            closure_log: Vec::new(),
            retried_interrupted: 0,
            faults: sc.faults.clone(),
            fired: Vec::new(),
            events: Vec::new(),
            record,
            hash: Hasher64::new(),
            n_events: 0,
            probe_read_filled_buffer: 0,
            first_read_offer: None,
            probe_short_write: 0,
            probe_write_interrupted: 0,
            max_read_calls: None,
            in_closure: false,
            probe_write_fault_in_closure: 0,
            probe_write_fault_in_nonmatch: 0,
        }
    }

    pub fn ev(&mut self, e: Ev) {
        e.hash_into(&mut self.hash);
        self.n_events += 1;
        if self.record {
            self.events.push(e);
        }
    }

    fn fire(&mut self, i: usize) {
        if !self.fired.contains(&i) {
            self.fired.push(i);
        }
    }

    fn do_read(&mut self, buf: &mut [u8]) -> io::Result<usize> {
        if let Some(max) = self.max_read_calls {
            if self.read_calls >= max {
                panic!("{}", BUDGET_MARK);
            }
        }
        let call = self.read_calls;
        self.read_calls += 1;
        if self.pending_read_err.is_some() {
            // The library called read again before reporting the injected error.
            // This holds for ErrorKind::Interrupted too: the property says the
            // reader's error is reported to the caller, and that is what the
            // library does today (an earlier version of this check tolerated a
            // library-side EINTR retry; see DESIGN 10.2).
            self.seam_call_while_pending = true;
        }
        let offered = buf.len();
        if call == 0 {
            self.first_read_offer = Some(offered);
        }
        // injected faults first: a faulted call consumes neither data nor step
        for i in 0..self.faults.len() {
            match self.faults[i] {
                Fault::Read { call: c, kind, scribble } if c == call => {
                    self.fire(i);
                    if scribble {
                        garbage(buf, call);
                    }
                    self.pending_read_err = Some(kind);
                    self.last_read = Some(RRet::Err(kind));
                    self.ev(Ev::Read { offered, ret: RRet::Err(kind) });
                    return Err(kind.make(&format!("injected read fault at call {}", call)));
                }
                Fault::ReadPanic { call: c } if c == call => {
                    self.fire(i);
                    self.last_read = Some(RRet::Panic);
                    self.ev(Ev::Read { offered, ret: RRet::Panic });
                    panic!("{}", PANIC_MARK);
                }
                _ => {}
            }
        }
        if offered == 0 {
            self.last_read = Some(RRet::EmptyBuf);
            self.ev(Ev::Read { offered, ret: RRet::EmptyBuf });
            return Ok(0);
        }
        let remaining = self.stream.len() - self.pos;
        let step = if self.read_idx < self.reads.len() {
            let s = self.reads[self.read_idx];
            self.read_idx += 1;
            s
        } else {
            self.default_read
        };
        if remaining == 0 {
            self.last_read = Some(RRet::Eof);
            self.ev(Ev::Read { offered, ret: RRet::Eof });
            if self.scribble {
                garbage(buf, call);
            }
            return Ok(0);
        }
        let want = match step {
            ReadStep::SoftEof => {
                self.soft_eofs += 1;
                self.last_read = Some(RRet::SoftEof);
                self.ev(Ev::Read { offered, ret: RRet::SoftEof });
                if self.scribble {
                    garbage(buf, call);
                }
                return Ok(0);
            }
            ReadStep::Bytes(n) => n,
            ReadStep::Fill => offered,
            ReadStep::Half => offered / 2,
            ReadStep::AllButOne => offered.saturating_sub(1),
            ReadStep::Until(abs) => abs.saturating_sub(self.pos),
        };
        let n = want.max(1).min(offered).min(remaining);
        buf[..n].copy_from_slice(&self.stream[self.pos..self.pos + n]);
        if self.scribble {
            garbage(&mut buf[n..], call);
        }
        if n == offered {
            self.probe_read_filled_buffer += 1;
        }
        self.pos += n;
        self.last_read = Some(RRet::Data(n));
        self.ev(Ev::Read { offered, ret: RRet::Data(n) });
        Ok(n)
    }

    fn do_write(&mut self, buf: &[u8]) -> io::Result<usize> {
        let call = self.write_calls;
        self.write_calls += 1;
        if self.pending_read_err.is_some() {
            // allowed (see DESIGN C18): writes after a read error are only
            // subject to prefix consistency
        }
        if self.fatal_write_err.is_some() {
            self.writes_after_fatal += 1;
        }
        let offered = buf.len();
        if let Some(kind) = self.force_write_fail_next.take() {
            return self.fail_write(offered, kind);
        }
        for i in 0..self.faults.len() {
            match self.faults[i] {
                Fault::Write { call: c, kind } if c == call => {
                    self.fire(i);
                    return self.fail_write(offered, kind);
                }
                Fault::WriteZero { call: c } if c == call => {
                    self.fire(i);
                    if self.fatal_write_err.is_none() {
                        self.fatal_write_err = Some((
                            io::ErrorKind::WriteZero,
                            self.accepted.len(),
                        ));
                    }
                    self.ev(Ev::Write { offered, ret: WRet::Zero });
                    return Ok(0);
                }
                Fault::WritePanic { call: c } if c == call => {
                    self.fire(i);
                    self.ev(Ev::Write { offered, ret: WRet::Panic });
                    panic!("{}", PANIC_MARK);
                }
                Fault::WriteAfterBytes { after_bytes, kind }
                    if !self.fired.contains(&i) =>
                {
                    let have = self.accepted.len();
                    if have == after_bytes && offered > 0 {
                        self.fire(i);
                        return self.fail_write(offered, kind);
                    }
                    if have < after_bytes && have + offered > after_bytes {
                        // short write up to the boundary; the next call fails
                        let n = after_bytes - have;
                        self.fire(i);
                        self.force_write_fail_next = Some(kind);
                        self.accepted.extend_from_slice(&buf[..n]);
                        self.probe_short_write += 1;
                        self.ev(Ev::Write { offered, ret: WRet::Accepted(n) });
                        return Ok(n);
                    }
                }
                _ => {}
            }
        }
        if offered == 0 {
            self.ev(Ev::Write { offered, ret: WRet::Accepted(0) });
            return Ok(0);
        }
        let step = if self.write_idx < self.writes.len() {
            let s = self.writes[self.write_idx];
            self.write_idx += 1;
            s
        } else {
            self.default_write
        };
        let n = match step {
            WriteStep::Interrupted => {
                self.probe_write_interrupted += 1;
                self.ev(Ev::Write { offered, ret: WRet::Interrupted });
                return Err(io::Error::new(
                    io::ErrorKind::Interrupted,
                    "simulated EINTR",
                ));
            }
            WriteStep::All => offered,
            WriteStep::Accept(n) => n.max(1).min(offered),
            WriteStep::Half => (offered / 2).max(1),
            WriteStep::AllButOne => offered.saturating_sub(1).max(1),
        };
        if n < offered {
            self.probe_short_write += 1;
        }
        self.accepted.extend_from_slice(&buf[..n]);
        self.ev(Ev::Write { offered, ret: WRet::Accepted(n) });
        Ok(n)
    }

    fn fail_write(&mut self, offered: usize, kind: ErrKind) -> io::Result<usize> {
        if self.in_closure {
            self.probe_write_fault_in_closure += 1;
        } else {
            self.probe_write_fault_in_nonmatch += 1;
        }
        if !kind.is_interrupted() && self.fatal_write_err.is_none() {
            self.fatal_write_err = Some((kind.to_io(), self.accepted.len()));
        }
        self.ev(Ev::Write { offered, ret: WRet::Err(kind) });
        Err(kind.make("injected write fault"))
    }
}

fn garbage(buf: &mut [u8], salt: usize) {
    for (i, b) in buf.iter_mut().enumerate() {
        *b = (0xA5usize ^ i.wrapping_mul(31) ^ salt.wrapping_mul(17)) as u8;
    }
}

pub type Shared = Arc<Mutex<World>>;

pub fn lock(w: &Shared) -> std::sync::MutexGuard<'_, World> {
    match w.lock() {
        Ok(g) => g,
        Err(p) => p.into_inner(), // a simulated crash poisons nothing we care about
    }
}

pub struct SimReader(pub Shared);

impl io::Read for SimReader {
    fn read(&mut self, buf: &mut [u8]) -> io::Result<usize> {
        crate::sched::seam_yield(crate::sched::SEAM_READ);
        let mut w = lock(&self.0);
        w.do_read(buf)
    }
    fn read_vectored(&mut self, bufs: &mut [io::IoSliceMut<'_>]) -> io::Result<usize> {
        crate::sched::seam_yield(crate::sched::SEAM_READ);
        let mut w = lock(&self.0);
        if !w.vectored {
            // std's default: the first non-empty slice only
            return match bufs.iter_mut().find(|b| !b.is_empty()) {
                Some(b) => w.do_read(b),
                None => w.do_read(&mut []),
            };
        }
        // one logical read whose buffer is the concatenation of the slices
        let total: usize = bufs.iter().map(|b| b.len()).sum();
        let mut tmp = vec![0u8; total];
        let r = w.do_read(&mut tmp);
        let mut off = 0;
        for b in bufs.iter_mut() {
            let n = b.len();
            b.copy_from_slice(&tmp[off..off + n]);
            off += n;
        }
        r
    }
}

pub struct SimWriter(pub Shared);

impl io::Write for SimWriter {
    fn write(&mut self, buf: &[u8]) -> io::Result<usize> {
        crate::sched::seam_yield(crate::sched::SEAM_WRITE);
        let mut w = lock(&self.0);
        w.do_write(buf)
    }
    fn write_vectored(&mut self, bufs: &[io::IoSlice<'_>]) -> io::Result<usize> {
        crate::sched::seam_yield(crate::sched::SEAM_WRITE);
        let mut w = lock(&self.0);
        if !w.vectored {
            return match bufs.iter().find(|b| !b.is_empty()) {
                Some(b) => w.do_write(b),
                None => w.do_write(&[]),
            };
        }
        let tmp: Vec<u8> = bufs.iter().flat_map(|b| b.iter().cloned()).collect();
        w.do_write(&tmp)
    }
    fn flush(&mut self) -> io::Result<()> {
        let mut w = lock(&self.0);
        let call = w.flush_calls;
        w.flush_calls += 1;
        w.ev(Ev::Flush);
        for i in 0..w.faults.len() {
            if let Fault::Flush { call: c, kind } = w.faults[i] {
                if c == call {
                    w.fire(i);
                    if !kind.is_interrupted() && w.fatal_write_err.is_none() {
                        let len = w.accepted.len();
                        w.fatal_write_err = Some((kind.to_io(), len));
                    }
                    return Err(kind.make("injected flush fault"));
                }
            }
        }
        Ok(())
    }
}

/// The scripted replacement closure. Returns what the closure should do
/// after recording the call: (step, injected failure, after_write, panic).
pub fn closure_call(
    world: &Shared,
    script: &[ClosureStep],
    m: M,
    bytes: &[u8],
) -> (ClosureStep, Option<ErrKind>, bool) {
    crate::sched::seam_yield(crate::sched::SEAM_CLOSURE);
    let mut w = lock(world);
    let call = w.closure_calls;
    w.closure_calls += 1;
    let step = if script.is_empty() {
        ClosureStep::Table
    } else {
        script[call % script.len()]
    };
    let bytes_ok = m.2 <= w.stream.len()
        && m.1 <= m.2
        && &w.stream[m.1..m.2] == bytes;
    let mut failed = None;
    let mut after_write = false;
    let mut do_panic = false;
    for i in 0..w.faults.len() {
        match w.faults[i] {
            Fault::Closure { call: c, kind, after_write: aw } if c == call => {
                w.fire(i);
                failed = Some(kind);
                after_write = aw;
            }
            Fault::ClosurePanic { call: c } if c == call => {
                w.fire(i);
                do_panic = true;
            }
            _ => {}
        }
    }
    if let Some(kind) = failed {
        // a closure error is never retried by the library, whatever its kind
        if w.fatal_write_err.is_none() && !after_write {
            let len = w.accepted.len();
            w.fatal_write_err = Some((kind.to_io(), len));
        }
    }
    w.in_closure = true;
    w.closure_log.push((m, bytes_ok));
    w.ev(Ev::Closure { m, bytes_ok, failed });
    if do_panic {
        drop(w);
        panic!("{}", PANIC_MARK);
    }
    (step, failed, after_write)
}

/// Mark a closure failure that happens after the closure's own write, so the
/// accepted length recorded for the fatal error includes that write.
pub fn closure_done(world: &Shared) {
    lock(world).in_closure = false;
}

pub fn closure_failed_after_write(world: &Shared, kind: ErrKind) {
    let mut w = lock(world);
    if w.fatal_write_err.is_none() {
        let len = w.accepted.len();
        w.fatal_write_err = Some((kind.to_io(), len));
    }
}
