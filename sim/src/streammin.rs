//! Structural minimiser for stream scenarios: shrink the explicit scenario
//! while the *same violation class* reproduces.

use crate::scenario::*;
use crate::streamsim::exec;

pub struct Min {
    pub target: String,
    pub budget: usize,
    pub used: usize,
    /// wall-clock bound: a giant scenario (megabyte patterns) can take seconds per
    /// re-execution; past the deadline the best scenario so far is reported
    pub deadline: std::time::Instant,
}

impl Min {
    fn fails(&mut self, sc: &StreamScenario) -> bool {
        if self.used >= self.budget || std::time::Instant::now() > self.deadline {
            return false;
        }
        self.used += 1;
        // keep scenarios well-formed
        if sc.patterns.is_empty() || sc.patterns.iter().any(|p| p.is_empty()) {
            return false;
        }
        if sc.table.len() != sc.patterns.len() {
            return false;
        }
        let v = exec(sc, false);
        matches!(v.violation, Some(ref x) if x.class == self.target)
    }

    fn try_apply(&mut self, cur: &mut StreamScenario, cand: StreamScenario) -> bool {
        if cand == *cur {
            return false;
        }
        if self.fails(&cand) {
            *cur = cand;
            true
        } else {
            false
        }
    }
}

/// simplicity order of read steps (lower is simpler)
fn rank(s: &ReadStep) -> u8 {
    match s {
        ReadStep::Bytes(1) => 0,
        ReadStep::Fill => 1,
        _ => 2,
    }
}

fn remove_range<T: Clone>(v: &[T], from: usize, to: usize) -> Vec<T> {
    let mut out = v[..from].to_vec();
    out.extend_from_slice(&v[to..]);
    out
}

/// ddmin-like chunk removal over a vector field.
fn shrink_vec<T: Clone + PartialEq>(
    min: &mut Min,
    cur: &mut StreamScenario,
    get: impl Fn(&StreamScenario) -> Vec<T>,
    set: impl Fn(&mut StreamScenario, Vec<T>),
    min_len: usize,
) -> bool {
    let mut progress = false;
    let mut chunk = get(cur).len().max(1);
    while chunk >= 1 {
        let mut i = 0;
        loop {
            let v = get(cur);
            if v.len() <= min_len || i >= v.len() {
                break;
            }
            let to = (i + chunk).min(v.len());
            if v.len() - (to - i) < min_len {
                i += chunk;
                continue;
            }
            let mut cand = cur.clone();
            set(&mut cand, remove_range(&v, i, to));
            if min.try_apply(cur, cand) {
                progress = true;
            } else {
                i += chunk;
            }
            if min.used >= min.budget {
                return progress;
            }
        }
        if chunk == 1 {
            break;
        }
        chunk /= 2;
    }
    progress
}

pub fn minimise(sc: &StreamScenario, target: &str, budget: usize) -> (StreamScenario, usize) {
    let mut min = Min { target: target.to_string(), budget, used: 0, deadline: std::time::Instant::now() + std::time::Duration::from_secs(std::env::var("VERIF_MIN_SECS").ok().and_then(|s| s.parse().ok()).unwrap_or(60)) };
    let mut cur = sc.clone();
    if !min.fails(&cur) {
        return (cur, min.used);
    }
    loop {
        let mut progress = false;
        // faults
        progress |= shrink_vec(&mut min, &mut cur, |s| s.faults.clone(), |s, v| s.faults = v, 0);
        // options towards the plainest configuration
        let simplifications: Vec<Box<dyn Fn(&mut StreamScenario)>> = vec![
            Box::new(|s| s.opts.surface = Surface::Top),
            Box::new(|s| s.opts.kind = Kind::Auto),
            Box::new(|s| s.opts.case_insensitive = false),
            Box::new(|s| s.opts.prefilter = false),
            Box::new(|s| s.opts.start_both = false),
            Box::new(|s| s.opts.dense_depth = None),
            Box::new(|s| s.opts.byte_classes = true),
            Box::new(|s| s.scribble = false),
            Box::new(|s| s.infallible_ctor = false),
            Box::new(|s| s.drive = 0),
            Box::new(|s| s.closure = vec![ClosureStep::Table]),
            Box::new(|s| {
                s.writes.clear();
                s.default_write = WriteStep::All
            }),
            Box::new(|s| s.writes.clear()),
            Box::new(|s| {
                s.reads.clear();
                if rank(&s.default_read) > 1 {
                    s.default_read = ReadStep::Fill
                }
            }),
            Box::new(|s| {
                s.reads.clear();
                s.default_read = ReadStep::Bytes(1)
            }),
            Box::new(|s| s.reads.clear()),
            Box::new(|s| {
                if rank(&s.default_read) > 1 {
                    s.default_read = ReadStep::Fill
                }
            }),
            Box::new(|s| s.default_read = ReadStep::Bytes(1)),
            Box::new(|s| s.spare = Some(1)),
            Box::new(|s| {
                if let Some(x) = s.spare {
                    s.spare = Some((x / 2).max(1))
                }
            }),
            Box::new(|s| {
                if let Some(x) = s.spare {
                    s.spare = Some(x.saturating_sub(1).max(1))
                }
            }),
            Box::new(|s| {
                if s.op == StreamOp::ReplaceWith {
                    s.op = StreamOp::Replace
                }
            }),
            Box::new(|s| {
                for t in s.table.iter_mut() {
                    t.clear()
                }
            }),
        ];
        for f in simplifications.iter() {
            let mut cand = cur.clone();
            f(&mut cand);
            progress |= min.try_apply(&mut cur, cand);
        }
        // patterns (with their table entries)
        let mut i = 0;
        while cur.patterns.len() > 1 && i < cur.patterns.len() {
            let mut cand = cur.clone();
            cand.patterns.remove(i);
            if i < cand.table.len() {
                cand.table.remove(i);
            }
            if min.try_apply(&mut cur, cand) {
                progress = true;
            } else {
                i += 1;
            }
        }
        // stream bytes
        progress |= shrink_vec(&mut min, &mut cur, |s| s.stream.clone(), |s, v| s.stream = v, 0);
        // read / write steps
        progress |= shrink_vec(&mut min, &mut cur, |s| s.reads.clone(), |s, v| s.reads = v, 0);
        progress |= shrink_vec(&mut min, &mut cur, |s| s.writes.clone(), |s, v| s.writes = v, 0);
        // shorten patterns
        for i in 0..cur.patterns.len() {
            loop {
                if cur.patterns[i].len() <= 1 {
                    break;
                }
                let mut a = cur.clone();
                a.patterns[i].pop();
                if min.try_apply(&mut cur, a) {
                    progress = true;
                    continue;
                }
                let mut b = cur.clone();
                b.patterns[i].remove(0);
                if min.try_apply(&mut cur, b) {
                    progress = true;
                    continue;
                }
                break;
            }
        }
        // canonical alphabet
        {
            let mut map: Vec<Option<u8>> = vec![None; 256];
            let mut next = b'a';
            let mut cand = cur.clone();
            let mut remap = |v: &mut Vec<u8>| {
                for b in v.iter_mut() {
                    let e = &mut map[*b as usize];
                    if e.is_none() {
                        *e = Some(next);
                        next = next.wrapping_add(1);
                    }
                    *b = e.unwrap();
                }
            };
            for p in cand.patterns.iter_mut() {
                remap(p);
            }
            remap(&mut cand.stream);
            progress |= min.try_apply(&mut cur, cand);
        }
        // simplify individual read steps to Bytes(1)/Fill
        for i in 0..cur.reads.len() {
            for repl in [ReadStep::Fill, ReadStep::Bytes(1)] {
                if i < cur.reads.len() && rank(&cur.reads[i]) > rank(&repl) {
                    let mut cand = cur.clone();
                    cand.reads[i] = repl;
                    progress |= min.try_apply(&mut cur, cand);
                }
            }
        }
        if !progress || min.used >= min.budget {
            break;
        }
    }
    cur.origin = format!("minimised from [{}] with {} re-executions", sc.origin, min.used);
    (cur, min.used)
}
