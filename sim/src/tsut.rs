//! Searchers for threadsim with a uniform operation surface over
//! AhoCorasick, the three Automaton types and packed::Searcher.

use crate::scenario::{MKind, Surface};
use crate::sut::{build, Sut};
use crate::tscen::{IterKind, Search, SearcherSpec, R};
use aho_corasick::automaton::{Automaton, OverlappingState};
use aho_corasick::{packed, Anchored, Input, Match, Span};
use std::io;

pub enum TSut {
    A(Sut),
    Packed(packed::Searcher),
}

pub fn rm(m: Match) -> R {
    R::M(m.pattern().as_u32(), m.start(), m.end())
}

pub fn build_tsut(spec: &SearcherSpec) -> Result<TSut, String> {
    if spec.packed {
        let kind = match spec.opts.match_kind {
            MKind::LeftmostLongest => packed::MatchKind::LeftmostLongest,
            _ => packed::MatchKind::LeftmostFirst,
        };
        let mut cfg = packed::Config::new();
        cfg.match_kind(kind);
        match spec.packed_cfg {
            1 => {
                cfg.only_rabin_karp(true);
            }
            2 => {
                cfg.only_teddy(true);
            }
            3 => {
                cfg.only_teddy(true).only_teddy_fat(Some(true));
            }
            4 => {
                cfg.only_teddy(true).only_teddy_256bit(Some(false));
            }
            5 => {
                cfg.heuristic_pattern_limits(false);
            }
            _ => {}
        }
        let mut b = cfg.builder();
        b.extend(spec.patterns.iter());
        if let Some(s) = b.build() {
            return Ok(TSut::Packed(s));
        }
        // the forced configuration is unavailable for these patterns / this CPU: default one
        let mut b = packed::Config::new().match_kind(kind).builder();
        b.extend(spec.patterns.iter());
        b.build().map(TSut::Packed).ok_or_else(|| "packed searcher not built".to_string())
    } else {
        build(&spec.patterns, &spec.opts).map(TSut::A)
    }
}

pub fn clamp_span(len: usize, span: Option<(usize, usize)>) -> (usize, usize) {
    match span {
        None => (0, len),
        Some((a, b)) => {
            let b = b.min(len);
            let a = a.min(b);
            (a, b)
        }
    }
}

pub fn input<'h>(hay: &'h [u8], q: &Search) -> Input<'h> {
    let (a, b) = clamp_span(hay.len(), q.span);
    Input::new(hay)
        .span(a..b)
        .anchored(if q.anchored { Anchored::Yes } else { Anchored::No })
        .earliest(q.earliest)
}

macro_rules! on_aut {
    ($sut:expr, $a:ident => $e:expr) => {
        match $sut {
            Sut::Top(_) => unreachable!(),
            Sut::Nnfa($a) => $e,
            Sut::Cnfa($a) => $e,
            Sut::Dfa($a) => $e,
        }
    };
}

pub type BoxIter<'a> = Box<dyn Iterator<Item = R> + Send + 'a>;

impl TSut {
    pub fn clone_searcher(&self) -> TSut {
        match self {
            TSut::Packed(p) => TSut::Packed(p.clone()),
            TSut::A(Sut::Top(ac)) => TSut::A(Sut::Top(ac.clone())),
            TSut::A(Sut::Nnfa(a)) => TSut::A(Sut::Nnfa(a.clone())),
            TSut::A(Sut::Cnfa(a)) => TSut::A(Sut::Cnfa(a.clone())),
            TSut::A(Sut::Dfa(a)) => TSut::A(Sut::Dfa(a.clone())),
        }
    }

    pub fn try_find(&self, hay: &[u8], q: &Search) -> R {
        match self {
            TSut::Packed(p) => {
                let (a, b) = clamp_span(hay.len(), q.span);
                match p.find_in(hay, Span::from(a..b)) {
                    Some(m) => rm(m),
                    None => R::None,
                }
            }
            TSut::A(Sut::Top(ac)) => match ac.try_find(input(hay, q)) {
                Ok(Some(m)) => rm(m),
                Ok(None) => R::None,
                Err(e) => R::Err(e.to_string()),
            },
            TSut::A(s) => on_aut!(s, a => match a.try_find(&input(hay, q)) {
                Ok(Some(m)) => rm(m),
                Ok(None) => R::None,
                Err(e) => R::Err(e.to_string()),
            }),
        }
    }

    /// The infallible entry point (`AhoCorasick::find`; panics on
    /// unsupported configurations). Other surfaces fall back to try_find.
    pub fn find_infallible(&self, hay: &[u8], q: &Search) -> R {
        match self {
            TSut::A(Sut::Top(ac)) => match ac.find(input(hay, q)) {
                Some(m) => rm(m),
                None => R::None,
            },
            TSut::Packed(p) => match p.find(hay) {
                Some(m) => rm(m),
                None => R::None,
            },
            _ => self.try_find(hay, q),
        }
    }

    pub fn is_match(&self, hay: &[u8], q: &Search) -> R {
        match self {
            TSut::A(Sut::Top(ac)) => R::Bool(ac.is_match(input(hay, q))),
            _ => {
                let mut q2 = q.clone();
                q2.earliest = true;
                match self.try_find(hay, &q2) {
                    R::M(..) => R::Bool(true),
                    R::None => R::Bool(false),
                    other => other,
                }
            }
        }
    }

    pub fn iter<'a>(&'a self, kind: IterKind, hay: &'a [u8], q: &Search) -> Result<BoxIter<'a>, R> {
        match self {
            TSut::Packed(p) => Ok(Box::new(p.find_iter(hay).map(rm))),
            // the infallible wrappers (find_iter / find_overlapping_iter) for every third
            // plain input; they panic on unsupported configurations, which is a result too
            TSut::A(Sut::Top(ac)) if hay.len() % 3 == 0 && q.span.is_none() && !q.anchored && !q.earliest && kind != IterKind::OverlappingSteps => {
                match kind {
                    IterKind::Find => Ok(Box::new(ac.find_iter(hay).map(rm))),
                    _ => Ok(Box::new(ac.find_overlapping_iter(hay).map(rm))),
                }
            }
            TSut::A(Sut::Top(ac)) => match kind {
                IterKind::Find => ac
                    .try_find_iter(input(hay, q))
                    .map(|it| Box::new(it.map(rm)) as BoxIter<'a>)
                    .map_err(|e| R::Err(e.to_string())),
                IterKind::OverlappingIter => ac
                    .try_find_overlapping_iter(input(hay, q))
                    .map(|it| Box::new(it.map(rm)) as BoxIter<'a>)
                    .map_err(|e| R::Err(e.to_string())),
                IterKind::OverlappingSteps => {
                    let inp = input(hay, q);
                    let mut state = OverlappingState::start();
                    let mut done = false;
                    Ok(Box::new(std::iter::from_fn(move || {
                        if done {
                            return None;
                        }
                        match ac.try_find_overlapping(inp.clone(), &mut state) {
                            Err(e) => {
                                done = true;
                                Some(R::Err(e.to_string()))
                            }
                            Ok(()) => match state.get_match() {
                                Some(m) => Some(rm(m)),
                                None => {
                                    done = true;
                                    None
                                }
                            },
                        }
                    })))
                }
            },
            TSut::A(Sut::Nnfa(a)) => aut_iter(a, kind, hay, q),
            TSut::A(Sut::Cnfa(a)) => aut_iter(a, kind, hay, q),
            TSut::A(Sut::Dfa(a)) => aut_iter(a, kind, hay, q),
        }
    }

    pub fn replace_all(&self, hay: &[u8], table: &[Vec<u8>]) -> R {
        // The `str` entry points (try_replace_all) are separate wrappers: use them
        // for every second UTF-8 haystack (a deterministic function of the input).
        if hay.len() % 2 == 1 {
            if let (Ok(h), Some(t)) = (
                std::str::from_utf8(hay),
                table.iter().map(|e| std::str::from_utf8(e).ok()).collect::<Option<Vec<&str>>>(),
            ) {
                let r = match self {
                    TSut::Packed(_) => return R::Err("unsupported on packed".into()),
                    TSut::A(Sut::Top(ac)) => ac.try_replace_all(h, &t).map_err(|e| e.to_string()),
                    TSut::A(s) => on_aut!(s, a => a.try_replace_all(h, &t).map_err(|e| e.to_string())),
                };
                return match r {
                    Ok(v) => R::Bytes(v.into_bytes()),
                    Err(e) => R::Err(e),
                };
            }
        }
        match self {
            TSut::Packed(_) => R::Err("unsupported on packed".into()),
            TSut::A(Sut::Top(ac)) => match ac.try_replace_all_bytes(hay, table) {
                Ok(v) => R::Bytes(v),
                Err(e) => R::Err(e.to_string()),
            },
            TSut::A(s) => on_aut!(s, a => match a.try_replace_all_bytes(hay, table) {
                Ok(v) => R::Bytes(v),
                Err(e) => R::Err(e.to_string()),
            }),
        }
    }

    pub fn replace_all_with(
        &self,
        hay: &[u8],
        mut f: impl FnMut(&Match, &[u8], &mut Vec<u8>) -> bool,
    ) -> R {
        if hay.len() % 2 == 1 {
            if let Ok(h) = std::str::from_utf8(hay) {
                // `str` variant: the closure's output is appended if it is UTF-8
                let mut dst = String::new();
                let mut g = |m: &Match, b: &str, d: &mut String| -> bool {
                    let mut tmp = Vec::new();
                    let keep = f(m, b.as_bytes(), &mut tmp);
                    d.push_str(&String::from_utf8_lossy(&tmp));
                    keep
                };
                let r = match self {
                    TSut::Packed(_) => return R::Err("unsupported on packed".into()),
                    TSut::A(Sut::Top(ac)) => ac.try_replace_all_with(h, &mut dst, |m, b, d| g(m, b, d)).map_err(|e| e.to_string()),
                    TSut::A(s) => on_aut!(s, a => a.try_replace_all_with(h, &mut dst, |m, b, d| g(m, b, d)).map_err(|e| e.to_string())),
                };
                return match r {
                    Ok(()) => R::Bytes(dst.into_bytes()),
                    Err(e) => R::Err(e),
                };
            }
        }
        let mut dst = Vec::new();
        let r = match self {
            TSut::Packed(_) => return R::Err("unsupported on packed".into()),
            TSut::A(Sut::Top(ac)) => ac
                .try_replace_all_with_bytes(hay, &mut dst, |m, b, d| f(m, b, d))
                .map_err(|e| e.to_string()),
            TSut::A(s) => on_aut!(s, a => a
                .try_replace_all_with_bytes(hay, &mut dst, |m, b, d| f(m, b, d))
                .map_err(|e| e.to_string())),
        };
        match r {
            Ok(()) => R::Bytes(dst),
            Err(e) => R::Err(e),
        }
    }

    pub fn stream_iter<'a, Rd: io::Read + Send + 'a>(
        &'a self,
        rdr: Rd,
        infallible: bool,
    ) -> Result<BoxIter<'a>, R> {
        fn map_item(x: io::Result<Match>) -> R {
            match x {
                Ok(m) => rm(m),
                Err(e) => R::IoErr(format!("{:?}", e.kind())),
            }
        }
        match self {
            TSut::Packed(_) => Err(R::Err("unsupported on packed".into())),
            TSut::A(Sut::Top(ac)) => {
                if infallible {
                    Ok(Box::new(ac.stream_find_iter(rdr).map(map_item)))
                } else {
                    ac.try_stream_find_iter(rdr)
                        .map(|it| Box::new(it.map(map_item)) as BoxIter<'a>)
                        .map_err(|e| R::Err(e.to_string()))
                }
            }
            TSut::A(Sut::Nnfa(a)) => a
                .try_stream_find_iter(rdr)
                .map(|it| Box::new(it.map(map_item)) as BoxIter<'a>)
                .map_err(|e| R::Err(e.to_string())),
            TSut::A(Sut::Cnfa(a)) => a
                .try_stream_find_iter(rdr)
                .map(|it| Box::new(it.map(map_item)) as BoxIter<'a>)
                .map_err(|e| R::Err(e.to_string())),
            TSut::A(Sut::Dfa(a)) => a
                .try_stream_find_iter(rdr)
                .map(|it| Box::new(it.map(map_item)) as BoxIter<'a>)
                .map_err(|e| R::Err(e.to_string())),
        }
    }

    pub fn as_sut(&self) -> Option<&Sut> {
        match self {
            TSut::A(s) => Some(s),
            _ => None,
        }
    }

    pub fn surface(&self) -> Surface {
        match self {
            TSut::A(Sut::Top(_)) | TSut::Packed(_) => Surface::Top,
            TSut::A(Sut::Nnfa(_)) => Surface::Noncontiguous,
            TSut::A(Sut::Cnfa(_)) => Surface::Contiguous,
            TSut::A(Sut::Dfa(_)) => Surface::Dfa,
        }
    }
}

fn aut_iter<'a, A: Automaton + Send + Sync>(
    a: &'a A,
    kind: IterKind,
    hay: &'a [u8],
    q: &Search,
) -> Result<BoxIter<'a>, R> {
    match kind {
        IterKind::Find => a
            .try_find_iter(input(hay, q))
            .map(|it| Box::new(it.map(rm)) as BoxIter<'a>)
            .map_err(|e| R::Err(e.to_string())),
        IterKind::OverlappingIter => a
            .try_find_overlapping_iter(input(hay, q))
            .map(|it| Box::new(it.map(rm)) as BoxIter<'a>)
            .map_err(|e| R::Err(e.to_string())),
        IterKind::OverlappingSteps => {
            let inp = input(hay, q);
            let mut state = OverlappingState::start();
            let mut done = false;
            Ok(Box::new(std::iter::from_fn(move || {
                if done {
                    return None;
                }
                match a.try_find_overlapping(&inp, &mut state) {
                    Err(e) => {
                        done = true;
                        Some(R::Err(e.to_string()))
                    }
                    Ok(()) => match state.get_match() {
                        Some(m) => Some(rm(m)),
                        None => {
                            done = true;
                            None
                        }
                    },
                }
            })))
        }
    }
}
