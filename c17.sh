#!/bin/bash
# C17 = threadsim (native baton scheduler) + mirisim (Miri). Merges both into evidence/C17.json.
set -u
ROOT=$(cd "$(dirname "${BASH_SOURCE[0]}")" && pwd)
SIMCTL=$1; TIER=$2
OUT=${VERIF_OUT:-$ROOT/out}; EVD=${VERIF_EVIDENCE_DIR:-$ROOT/evidence}
"$SIMCTL" run C17 "$TIER"; C1=$?
C2=0
if [ $C1 -eq 1 ]; then
  echo "mirisim: skipped (threadsim already reported a violation)"
elif [ "${VERIF_NO_MIRI:-0}" != 1 ]; then
  "$ROOT/miri/run.sh" "$TIER"; C2=$?
  python3 - "$EVD/C17.json" "$OUT/miri-summary.json" <<'PY'
import json, sys
try:
    ev = json.load(open(sys.argv[1])); m = json.load(open(sys.argv[2]))
    c = ev["coverage"]
    c["miri_scenario_runs"] = m["scenario_runs"]; c["miri_processes"] = m["processes"]; c["miri_ok"] = m["ok"]
    c["miri_wall_s"] = m["wall_s"]
    c["miri_findings"] = [dict(cls=v["cls"], detail=v["detail"][:300], counted=v.get("counted")) for v in m["violations"]]
    c["miri_note"] = "free-running threads (no baton) under Miri: seeded preemption (-Zmiri-seed, -Zmiri-preemption-rate 0.01..0.5), data-race detector, results compared with the sequential reference; Teddy reached through -Ctarget-feature=+ssse3,+avx2"
    c["evaluations"] += m["scenario_runs"]
    ev["violations"] = ev.get("violations", 0) + sum(1 for v in m["violations"] if v.get("counted"))
    ev["wall_s"] += m["wall_s"]
    json.dump(ev, open(sys.argv[1], "w"), indent=1)
except Exception as e:
    print("HARNESS-ERROR: cannot merge Miri summary into evidence:", e); sys.exit(2)
PY
  [ $? -ne 0 ] && C2=2
fi
# informational source audit (the property lists it under observe_at); never produces a VIOLATION:
# a benign atomic statistics counter would not break the property.
python3 - "$EVD/C17.json" "${VERIF_REPO:-/repo}" <<'PY'
import json, sys, os, re
try:
    ev = json.load(open(sys.argv[1])); repo = sys.argv[2]
    toks = ["UnsafeCell", "RefCell", "Cell<", "Atomic", "Mutex", "RwLock", "static mut", "thread_local", "OnceCell", "OnceLock", "lazy_static", "Condvar"]
    hits = {}
    for root, _, files in os.walk(os.path.join(repo, "src")):
        for f in files:
            if not f.endswith(".rs") or f in ("verif.rs", "tests.rs"):
                continue
            p = os.path.join(root, f)
            for n, line in enumerate(open(p, errors="replace"), 1):
                code = line.split("//")[0]
                for t in toks:
                    if t in code:
                        hits.setdefault(t, []).append("%s:%d" % (os.path.relpath(p, repo), n))
    ev["coverage"]["source_audit_informational"] = {"tokens_searched": toks, "hits_outside_verif_hooks": {k: v[:8] for k, v in hits.items()},
        "note": "interior-mutability tokens in library source (comments stripped, src/verif.rs and tests excluded); informational only"}
    json.dump(ev, open(sys.argv[1], "w"), indent=1)
    if hits:
        print("NOTE: interior-mutability tokens in library source (informational): " + ", ".join("%s x%d" % (k, len(v)) for k, v in sorted(hits.items())))
except Exception as e:
    print("NOTE: source audit skipped:", e)
PY
if [ $C1 -eq 1 ] || [ $C2 -eq 1 ]; then exit 1; fi
if [ $C1 -ne 0 ] || [ $C2 -ne 0 ]; then exit 2; fi
exit 0
