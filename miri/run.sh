#!/bin/bash
# mirisim: the threadsim scenarios (reduced size), free-running threads, under Miri's seeded
# scheduler and data-race detector.
#   miri/run.sh build                      build only (used by setup)
#   miri/run.sh <quick|thorough>           run a batch; writes $VERIF_OUT/miri-summary.json
#   miri/run.sh replay <file>              re-run one (miri seed, scenario) pair
# exit: 0 clean, 1 violation (VIOLATION line printed), 2 harness error
set -u
ROOT=$(cd "$(dirname "${BASH_SOURCE[0]}")/.." && pwd)
REPO=${VERIF_REPO:-/repo}; REPO=$(cd "$REPO" && pwd)
if [ "$REPO" = "/repo" ]; then KEY=repo; else KEY=$(echo -n "$REPO" | md5sum | cut -c1-12); fi
BUILD=${VERIF_BUILD_DIR:-$ROOT/build/$KEY}
OUT=${VERIF_OUT:-$ROOT/out}
SEED=${VERIF_SEED:-20260927}
export CARGO_NET_OFFLINE=true
export RUSTFLAGS="--cfg aho_corasick_verif -Ctarget-feature=+ssse3,+avx2"
MODE=${1:-quick}
[ -f "$BUILD/Cargo.toml" ] || { echo "HARNESS-ERROR: $BUILD/Cargo.toml missing (run ./check build first)"; exit 2; }
cd "$BUILD" || exit 2
mkdir -p "$OUT/miri" "$OUT/replays"

miri() { # miri <miri-seed> <preemption-rate> <args...>
  local ms=$1 pr=$2; shift 2
  MIRIFLAGS="${MIRI_ISOLATION:-} -Zmiri-seed=$ms -Zmiri-preemption-rate=$pr" \
    cargo +nightly miri run --offline -q -- "$@"
}

# build (an empty scenario range)
if ! miri 0 0.01 miri-run "$SEED" 0 0 >"$OUT/miri/build.log" 2>&1; then
  echo "HARNESS-ERROR: Miri build/run failed; see $OUT/miri/build.log"; tail -5 "$OUT/miri/build.log"; exit 2
fi
[ "$MODE" = build ] && { echo "miri build ok"; exit 0; }

if [ "$MODE" = replay ]; then
  F=$2
  MS=$(python3 -c "import json,sys;print(json.load(open(sys.argv[1])).get('miri_seed',0))" "$F")
  PR=$(python3 -c "import json,sys;print(json.load(open(sys.argv[1])).get('preemption_rate',0.1))" "$F")
  # exact replay: the same Miri seed and rate over the same scenario range in one process
  # (Miri's schedule is a function of its seed and of everything executed before)
  read -r BSEED BFROM BTO < <(python3 -c "import json,sys;b=json.load(open(sys.argv[1])).get('batch') or {};print(b.get('seed',0),b.get('from',0),b.get('to',0))" "$F")
  if [ "$BTO" -gt "$BFROM" ]; then
    miri "$MS" "$PR" miri-run "$BSEED" "$BFROM" "$BTO" >"$OUT/miri/replay.log" 2>&1; CODE=$?
  else
    # legacy single-scenario file: needs host file access
    MIRI_ISOLATION=-Zmiri-disable-isolation miri "$MS" "$PR" miri-run "$SEED" 0 0 "$F" >"$OUT/miri/replay.log" 2>&1; CODE=$?
  fi
  grep -E "MISMATCH|Undefined Behavior|^error" "$OUT/miri/replay.log" | cut -c1-600 | head -5
  if [ $CODE -ne 0 ]; then echo "VIOLATION property=C17 replay=$F"; exit 1; fi
  echo "REPLAY held property=C17"; exit 0
fi

case "$MODE" in
  quick) PROCS=16; PER=1; ROUNDS=2;;      # 32 jobs x (1 general + 5 high-contention) = 192 scenario runs
  thorough) PROCS=16; PER=3; ROUNDS=10;;  # 480 indices = 2880 scenario runs
  *) echo "usage: miri/run.sh build|quick|thorough|replay <file>"; exit 2;;
esac
T0=$(date +%s)
RATES=(0.01 0.05 0.1 0.2 0.3 0.5)
rm -f "$OUT"/miri/run-*.log
# one job per (scenario range, Miri seed, preemption rate); at most $PROCS Miri processes at any time
JOBS="$OUT/miri/jobs.txt"; : > "$JOBS"
for J in $(seq 0 $((ROUNDS*PROCS-1))); do
  FROM=$((J*PER)); TO=$((FROM+PER))
  PR=${RATES[$((J % ${#RATES[@]}))]}
  MS=$((SEED % 100000 + J))
  echo "$J $FROM $TO $PR $MS" >> "$JOBS"
done
export OUT SEED
xargs -P "$PROCS" -L 1 bash -c '
  J=$0; FROM=$1; TO=$2; PR=$3; MS=$4
  MIRIFLAGS="-Zmiri-seed=$MS -Zmiri-preemption-rate=$PR" \
    cargo +nightly miri run --offline -q -- miri-run "$SEED" "$FROM" "$TO" >"$OUT/miri/run-$J.log" 2>&1
  echo "EXIT $? miri_seed=$MS rate=$PR from=$FROM to=$TO" >>"$OUT/miri/run-$J.log"
' < "$JOBS"
T1=$(date +%s)

# collect
python3 - "$OUT" "$SEED" "$MODE" $((T1-T0)) <<'PY'
import sys, os, re, json, glob
out, seed, mode, wall = sys.argv[1], int(sys.argv[2]), sys.argv[3], int(sys.argv[4])
runs = ok = 0; viol = []; notes = []; procs = 0; harness = []
for f in sorted(glob.glob(os.path.join(out, "miri", "run-*.log"))):
    s = open(f, errors="replace").read()
    procs += 1
    m = re.search(r"EXIT (\d+) miri_seed=(\d+) rate=([\d.]+) from=(\d+) to=(\d+)", s)
    if not m:
        harness.append("no EXIT line in " + f); continue
    code, ms, rate, frm, to = int(m.group(1)), int(m.group(2)), float(m.group(3)), int(m.group(4)), int(m.group(5))
    oks = re.findall(r"MIRI-RUN idx=(\d+) ok", s)
    ok += len(oks); runs += len(oks)
    for mm in re.finditer(r"MIRI-RUN idx=(\d+) MISMATCH class=(\S+) detail: (.*)\nMIRI-SCENARIO (.*)", s):
        runs += 1
        viol.append(dict(cls=mm.group(2), detail=mm.group(3), idx=int(mm.group(1)), miri_seed=ms, rate=rate, scenario=json.loads(mm.group(4)), batch=dict(seed=seed, **{"from": frm, "to": to})))
    if "Undefined Behavior" in s or (code != 0 and not re.search(r"MISMATCH", s)):
        ub = re.search(r"error: Undefined Behavior: (.*)", s)
        text = ub.group(1) if ub else "miri exited with %d: %s" % (code, s[-300:].replace("\n", " | "))
        done = len(oks)
        idx = frm + done // 6  # the index that was running (6 scenario runs per index)
        runs += 1
        cls = "data-race" if "ata race" in text else "miri-error"
        viol.append(dict(cls=cls, detail=text, idx=idx, miri_seed=ms, rate=rate, scenario=None, log=f, batch=dict(seed=seed, **{"from": frm, "to": to})))
res = dict(mode=mode, seed=seed, processes=procs, scenario_runs=runs, ok=ok, wall_s=wall, violations=viol, harness=harness)
json.dump(res, open(os.path.join(out, "miri-summary.json"), "w"), indent=1)
PY
python3 - "$OUT" "$SEED" "$BUILD" <<'PY'
import sys, os, json, subprocess
out, seed, build = sys.argv[1], sys.argv[2], sys.argv[3]
res = json.load(open(os.path.join(out, "miri-summary.json")))
code = 0
print("mirisim: %d scenario runs in %d Miri processes, %d ok, %d suspicious, wall %ds" % (res["scenario_runs"], res["processes"], res["ok"], len(res["violations"]), res["wall_s"]))
real = []
for v in res["violations"]:
    scen = v["scenario"]
    if scen is None:
        # regenerate the scenario natively
        exe = os.path.join(build, "target/release/simctl")
        try:
            scen = json.loads(subprocess.run([exe, "tgen", "miri", seed, str(v["idx"])], capture_output=True, text=True).stdout)
        except Exception as e:
            scen = None
    if v["cls"] == "miri-error":
        # Not a data race and not a differing result. Re-run the same batch with the threads' operations
        # executed one after another on one thread: if the error persists it does not need concurrency
        # (single-threaded territory, C15: reported as a note); if it disappears it is a concurrency effect.
        b = v.get("batch") or {}
        env = dict(os.environ, MIRIFLAGS="-Zmiri-seed=%d -Zmiri-preemption-rate=%s" % (v["miri_seed"], v["rate"]))
        r = subprocess.run(["cargo", "+nightly", "miri", "run", "--offline", "-q", "--", "miri-run", str(b.get("seed", seed)), str(b.get("from", 0)), str(b.get("to", 0)), "-", "seq"], cwd=build, env=env, capture_output=True, text=True)
        if r.returncode != 0:
            print("NOTE: Miri reported a non-race error that persists without concurrency (not counted for C17) in index %d (miri seed %d): %s" % (v["idx"], v["miri_seed"], v["detail"][:300]))
            v["counted"] = False
            continue
        v["cls"] = "ub-only-under-concurrency"
    n_written = sum(1 for x in res["violations"] if x.get("counted"))
    if n_written >= 3:
        v["counted"] = True
        code = 1
        continue
    path = os.path.join(out, "replays", "C17-miri-%s-%d-%d.json" % (v["cls"], v["idx"], v["miri_seed"]))
    json.dump(dict(engine="miri", property="C17", **{"class": v["cls"]}, detail=v["detail"], seed=int(seed), miri_seed=v["miri_seed"], preemption_rate=v["rate"], batch=v.get("batch"), scenario=scen, note="replay: ./check C17 --replay <this file> (re-runs Miri with the same seed, rate and scenario)"), open(path, "w"), indent=1)
    print("violation class=%s generator=miri index=%d detail: %s" % (v["cls"], v["idx"], v["detail"][:400]))
    print("VIOLATION property=C17 replay=%s" % path)
    v["counted"] = True
    code = 1
json.dump(res, open(os.path.join(out, "miri-summary.json"), "w"), indent=1)
if res["harness"] or res["scenario_runs"] == 0:
    print("HARNESS-ERROR: mirisim:", res["harness"] or "no scenario ran")
    code = code or 2
sys.exit(code)
PY
