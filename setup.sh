#!/bin/bash
# setup_cmd: offline release build of the simulator against /repo (warms the build cache)
set -u
cd "$(dirname "${BASH_SOURCE[0]}")"
./check build || exit 2
# warm the Miri build used by the C17 check (not fatal if it fails here: the check reports it)
./miri/run.sh build || true
