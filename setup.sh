#!/bin/bash
# setup_cmd: offline release build of the simulator against /repo (warms the build cache)
set -u
cd "$(dirname "${BASH_SOURCE[0]}")"
./check build
